SPECIFICATION Spec
CONSTANTS
  ShapeSet <- ShapesCrash2
  SeqOutcomes <- OkPerm
  ChkOutcomes <- OkPerm
  MaxCrashes = 2
  MaxRuns = 1
  Tolerated <- KnownRecovery
  FnOut = TRUE
  Poller = FALSE
  Aging = FALSE
  Overruns = FALSE
  Gen = "off"
INVARIANTS NoClauseViolated InvQuiescentAtRelease InvDurLagsMem
CHECK_DEADLOCK TRUE
