SPECIFICATION Spec
CONSTANTS
  ShapeSet <- ShapesCrashRetry
  SeqOutcomes <- OkTrPerm
  ChkOutcomes <- OkPerm
  MaxCrashes = 1
  MaxRuns = 1
  Tolerated <- KnownRecoveryAny
  FnOut = FALSE
  Poller = FALSE
  Aging = FALSE
  Overruns = FALSE
  Gen = "off"
INVARIANTS NoClauseViolated InvQuiescentAtRelease InvDurLagsMem
CHECK_DEADLOCK TRUE
