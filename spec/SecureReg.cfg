SPECIFICATION SpecReg
CONSTANTS Depth = 3  Wide = TRUE  RegDepth = 2  RegWide = TRUE
INVARIANTS TaggedAccepted RefusesIsOfType Emit
CHECK_DEADLOCK FALSE
