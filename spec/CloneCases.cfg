SPECIFICATION Spec
CONSTANTS MaxB = 2  MaxS = 2  MaxA = 2  GLevel = 1
INVARIANTS ModelOK Emit
CHECK_DEADLOCK FALSE
