------------------------------- MODULE Clone -------------------------------
(***************************************************************************)
(* C18.  workflow/utils/clone: what a clone of a Plan, Block, Sequence,    *)
(* Checks group or Action must look like, for every execution state of the *)
(* original and every combination of WithKeepState / WithKeepSecrets.      *)
(*                                                                         *)
(* The model is a record-level reference semantics.  Every object kind has *)
(* a list of observable fields; the statement of C18 sorts them:           *)
(*   DEFINITION  "names, descriptions, plugin, request, timeout, retries,  *)
(*               delays, concurrency, tolerance, group, meta, order"       *)
(*               (order = which children there are and in which order)     *)
(*   ENGINE      "ids, statuses, times, reason and attempts", submit time  *)
(*   unlisted    Key, State.ETag: nothing is demanded (weaker reading; the *)
(*               real clone drops Key, which the statement does not list)  *)
(* An abstract field value is "V" (set) or "Z" (zero value).  Orig(k, st)  *)
(* is the abstract original of kind k at the root of a plan in execution   *)
(* state st; Clone(rec, k, o) is the abstract clone.  The relation every   *)
(* field of a real clone must have to the same field of the real original  *)
(* is Rel(k, f, o):                                                        *)
(*   "eq"        equal to the original's (deep, order included)            *)
(*   "zero"      the zero value (engine state stripped by default)         *)
(*   "scrubbed"  secure-tagged part of a request/response without          *)
(*               WithKeepSecrets: the original's value must not be there   *)
(*               (C17's domain; here only so that "request" is compared    *)
(*               exactly on the untagged part and on everything with       *)
(*               keep-secrets)                                             *)
(*   "free"      not demanded                                              *)
(* "By default all engine-owned state is stripped, so the clone of any     *)
(* plan, even one that has already run, is accepted by Submit": the model  *)
(* has the admission predicate of workflow.Validate restricted to engine   *)
(* state (Admit) and TLC checks DefaultAdmitted on the model; the replay   *)
(* submits the real default clone to a fresh Workstream.                   *)
(*                                                                         *)
(* TLC enumerates CASES = plan shape x execution state x (for running and  *)
(* failed) the position of the blocked / failing action.  A case carries   *)
(* the expectation table for all option combinations and kinds; the replay *)
(* obtains a real plan in that state from a real Workstream, clones every  *)
(* object of every kind with every option combination and compares field   *)
(* by field; it also mutates all memory reachable from the clone (and,     *)
(* afterwards, from the original) and checks the other side is unchanged   *)
(* ("shares no mutable memory"), which needs no model.                     *)
(***************************************************************************)
EXTENDS Naturals, Sequences, FiniteSets, TLC, Json

CONSTANTS MaxB, MaxS, MaxA,   \* blocks per plan, sequences per block, actions per sequence
          GLevel              \* 1: three check-group patterns, 2: six

VARIABLE c
vars == <<c>>

Kinds == {"Plan", "Block", "Sequence", "Checks", "Action"}
States == {"fresh", "submitted", "running", "completed", "failed"}
Opts == {"default", "keepState", "keepSecrets", "both"}
KeepState(o) == o \in {"keepState", "both"}
KeepSecrets(o) == o \in {"keepSecrets", "both"}

(* ---- fields, as the statement sorts them ---- *)
Def(k) ==
    CASE k = "Plan" -> {"Name", "Descr", "GroupID", "Meta", "Groups", "Blocks"}
      [] k = "Block" -> {"Name", "Descr", "EntranceDelay", "ExitDelay", "Concurrency", "ToleratedFailures", "Groups", "Sequences"}
      [] k = "Sequence" -> {"Name", "Descr", "Actions"}
      [] k = "Checks" -> {"Delay", "Actions"}
      [] k = "Action" -> {"Name", "Descr", "Plugin", "Timeout", "Retries", "Req.plain", "Req.secure"}
StateFields == {"ID", "State.Status", "State.Start", "State.End"}
Engine(k) ==
    CASE k = "Plan" -> StateFields \cup {"SubmitTime", "Reason"}
      [] k = "Action" -> StateFields \cup {"Attempts", "Attempts.Resp.plain", "Attempts.Resp.secure", "Attempts.Err", "Attempts.Start", "Attempts.End"}
      [] OTHER -> StateFields
Unlisted(k) == IF k = "Plan" THEN {"State.ETag"} ELSE {"Key", "State.ETag"}
Fields(k) == Def(k) \cup Engine(k) \cup Unlisted(k)
Secure == {"Req.secure", "Attempts.Resp.secure"}      \* parts tagged coerce:"secure"
Children == {"Groups", "Blocks", "Sequences", "Actions"}  \* "eq" = same children in the same order, each a clone

Rel(k, f, o) ==
    IF f \in Unlisted(k) THEN "free"
    ELSE IF f \in Engine(k) /\ ~KeepState(o) THEN "zero"
    ELSE IF f \in Secure /\ ~KeepSecrets(o) THEN "scrubbed"
    ELSE "eq"

(* ---- abstract originals and clones ---- *)
(* the root object of kind k of a plan in state st: which fields are set  *)
Orig(k, st) ==
    [f \in Fields(k) |->
        IF f \in Def(k) THEN "V"
        ELSE IF f \in Unlisted(k) THEN "V"
        ELSE IF st = "fresh" THEN "Z"
        ELSE IF f = "ID" \/ f = "SubmitTime" THEN "V"
        ELSE IF st = "submitted" THEN "Z"                      \* Status NotStarted is the zero value
        ELSE IF f = "Reason" THEN (IF st = "failed" THEN "V" ELSE "Z")
        ELSE IF f = "State.End" /\ st = "running" THEN "Z"
        ELSE "V"]
Clone(rec, k, o) ==
    [f \in Fields(k) |->
        LET r == Rel(k, f, o) IN
        IF r = "eq" THEN rec[f] ELSE IF r = "zero" THEN "Z" ELSE IF r = "scrubbed" THEN "S" ELSE "F"]
(* workflow.Validate on engine state: ids, state, reason, submit time, attempts must be unset *)
Admit(rec, k) == \A f \in Engine(k) : rec[f] = "Z"

(* ---- model-level properties ---- *)
\* the statement's "so": stripping by default makes every clone admissible, whatever ran before
DefaultAdmitted == \A k \in Kinds, st \in States, o \in Opts : ~KeepState(o) => Admit(Clone(Orig(k, st), k, o), k)
\* the definition survives every option combination; only secure-tagged parts may differ
DefinitionKept == \A k \in Kinds, st \in States, o \in Opts : \A f \in Def(k) :
                     Clone(Orig(k, st), k, o)[f] = IF f \in Secure /\ ~KeepSecrets(o) THEN "S" ELSE Orig(k, st)[f]
\* with state retention nothing the engine owns is lost
StateKept == \A k \in Kinds, st \in States : \A f \in Engine(k) \ Secure : Clone(Orig(k, st), k, "both")[f] = Orig(k, st)[f]
\* a state-retaining clone of anything that was submitted is not admissible (documented)
KeptNotAdmitted == \A k \in Kinds, st \in States \ {"fresh"} : ~Admit(Clone(Orig(k, st), k, "keepState"), k)
\* cloning a default clone again changes nothing more (on the demanded fields)
Idempotent == \A k \in Kinds, st \in States : LET once == Clone(Orig(k, st), k, "keepSecrets") IN
                 \A f \in Fields(k) \ Unlisted(k) : Clone(once, k, "keepSecrets")[f] = once[f]
\* the three sorts partition the fields
Sorted == \A k \in Kinds : Def(k) \cap Engine(k) = {} /\ Def(k) \cap Unlisted(k) = {} /\ Engine(k) \cap Unlisted(k) = {}
ModelOK == DefaultAdmitted /\ DefinitionKept /\ StateKept /\ KeptNotAdmitted /\ Idempotent /\ Sorted

(* ---- cases ---- *)
GroupSets == IF GLevel = 1
             THEN { {}, {"pre", "post"}, {"bypass", "pre", "cont", "post", "deferred"} }
             ELSE { {}, {"pre", "post"}, {"bypass", "pre", "cont", "post", "deferred"}, {"cont"}, {"deferred"}, {"bypass", "post"} }
\* bp: does the bypass group of the FIRST block pass ("pass": the block is skipped and ends Completed with untouched
\* sequences - still part of the plan, so every clone must keep it) or fail (the block runs)
Shapes == {s \in [nb : 1..MaxB, ns : 1..MaxS, na : 1..MaxA, pg : GroupSets, bg : GroupSets, retry : {0, 1}, bp : {"fail", "pass"}] :
             s.bp = "pass" => "bypass" \in s.bg}
(* where the blocked (running) / permanently failing (failed) action is *)
Ats(st) == IF st \in {"running", "failed"} THEN {"first", "last"} ELSE {"-"}

Exp == [o \in Opts |-> [k \in Kinds |-> [f \in Fields(k) |-> Rel(k, f, o)]]]
Case(sh, st, at) ==
    [shape |-> sh, st |-> st, at |-> at,
     exp |-> Exp,
     root |-> Orig("Plan", st),
     \* demanded of the clones that strip state only ("By default ..."); DefaultAdmitted says Admit holds for them
     submit |-> [o \in Opts |-> IF ~KeepState(o) /\ Admit(Clone(Orig("Plan", st), "Plan", o), "Plan") THEN "accept" ELSE "free"]]

\* a passing block bypass is only combined with the completed state (no action of that block is ever invoked)
Init == c \in UNION { { Case(sh, st, at) : at \in Ats(st) } : sh \in {x \in Shapes : x.bp = "fail"}, st \in States }
           \cup { Case(sh, "completed", "-") : sh \in {x \in Shapes : x.bp = "pass"} }
Next == UNCHANGED c
Spec == Init /\ [][Next]_vars

Emit == PrintT("CASE " \o ToJson(c))
=============================================================================
