SPECIFICATION Spec
CONSTANTS Mode = "singles"  Sample = 0
INVARIANTS TypeOK Local Verdicts Emit
CHECK_DEADLOCK FALSE
