SPECIFICATION TSpec
CONSTRAINT Save
POSTCONDITION Done
CHECK_DEADLOCK FALSE
