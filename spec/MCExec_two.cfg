\* two plans on one Workstream, two callers, up to 5 calls, one crash
SPECIFICATION Spec
CONSTANTS
  Plans <- P2
  Callers <- C2
  MaxCalls = 5
  MaxCrashes = 1
  RecoveryModes <- BothModes
  Ops <- CoreOps
  Aging = FALSE
  TwoStep = FALSE
  RecAging = TRUE
  MaxFaults = 0
VIEW view
INVARIANTS TypeOK OneRunner RunnerRegistered NoPanic AtMostOnce StartOnce MutexInv WaitTruth StaleRejected IndexLags
PROPERTIES StartedFromNS TerminalStable OnlyRunningResumed OnlyStaleClosed
CHECK_DEADLOCK FALSE
