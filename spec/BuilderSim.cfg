SPECIFICATION Spec
CONSTANTS MaxLen = 14  MaxKids = 9
INVARIANTS TypeOK EmitAtEnd
CHECK_DEADLOCK FALSE
