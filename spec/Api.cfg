SPECIFICATION Spec
CONSTANT MaxLen = 3
INVARIANTS AtMostOneStart EmitAtEnd
CHECK_DEADLOCK FALSE
