------------------------------ MODULE Secure ------------------------------
(***************************************************************************)
(* C17.  Which values of a request / response must be gone after a default *)
(* clone or in a rendered report, and which plugin types the registry      *)
(* must refuse.  Reference semantics of                                    *)
(*   workflow/utils/clone.Secure (called by clone.Plan/Block/Sequence/     *)
(*   Checks/Action without WithKeepSecrets and by reports.Render) and of   *)
(*   plugins/registry.Register's secret-name screening.                    *)
(*                                                                         *)
(* Part 1 (SecureShapes.cfg).  A TYPE SHAPE is a tree.  Every node is a    *)
(* record [k, f]: k is the Go kind, f the sequence of its children, every  *)
(* child an edge [t, s] with t the coerce tag of the struct field that     *)
(* holds it ("none" on edges that are not struct fields) and s the child   *)
(* shape.  Uniform records keep TLC's value comparison well defined.       *)
(*     str                 a string (the only leaf: the canary carrier)    *)
(*     time                a time.Time struct field (no canary; only as a  *)
(*                         sibling before or after another field)          *)
(*     struct(f1 .. fn)    exported fields, each tagged none | secure      *)
(*     ptr(s) slice(s) map(s) iface(s) array(s)                            *)
(*                         *T, []T, map[string]T, any holding a T, [2]T    *)
(* A LEAF PATH is the sequence of child indices from the root to a str.    *)
(* The statement of C17, clause by clause:                                 *)
(*   "A value held in a request or response field tagged coerce:"secure"   *)
(*    never appears ... however deeply it is nested in structs, pointers,  *)
(*    slices, maps or interface values (Go arrays excepted, as             *)
(*    documented)"                                                         *)
(*        Governed(path) == some struct field on the path is tagged secure *)
(*        MustScrub(path) == Governed(path) /\ no array node on the path   *)
(*      (weaker reading of the array exception: an array ANYWHERE on the   *)
(*       path lifts the demand, also below the tagged field.)              *)
(*   "while untagged data ... are left intact"                             *)
(*        MustKeep(path) == ~Governed(path)     (arrays do not matter)     *)
(* TLC enumerates every root shape up to Depth and prints it with its leaf *)
(* paths and the two verdicts; the harness builds the Go type with         *)
(* reflect, plants a unique canary per leaf and searches the outputs.      *)
(* Roots are what a plugin request/response is: a struct or a pointer to   *)
(* a struct (held in Action.Req / Attempt.Resp, which are interfaces).     *)
(*                                                                         *)
(* Part 2 (SecureReg.cfg).  REGISTRY SHAPES: structs whose fields carry a  *)
(* name class (secret-looking | plain), a tag (none | secure | ignore) and *)
(* a child that is a string, a struct by value or a non-nil pointer to a   *)
(* struct, to RegDepth levels.  Statement: "The registry refuses to        *)
(* register a plugin whose request or response type has a secret-looking   *)
(* field name without an explicit secure or ignore tag":                   *)
(*        Refuses(s) == some field reachable by value nesting has a        *)
(*                      secret-looking name and tag none                   *)
(* (a tag on an enclosing field does not excuse an untagged secret-looking *)
(* field inside it; nesting behind nil pointers, slices, maps is not       *)
(* demanded of the registry.)  The converse (a type without such a field   *)
(* is accepted) is demanded too: a registry that refuses clean types       *)
(* cannot be used; it is reported under a different mismatch kind.         *)
(***************************************************************************)
EXTENDS Naturals, Sequences, FiniteSets, TLC, Json

CONSTANTS Depth,      \* depth of the root shapes of part 1 (root struct = level 1)
          Wide,       \* TRUE: structs have one or two fields; FALSE: one field (deeper nesting at the same cost)
          RegDepth,   \* struct nesting levels of part 2
          RegWide     \* TRUE: nested structs have one or two fields; FALSE: nested structs have one field (root: always both)

VARIABLE c            \* the case being emitted
vars == <<c>>

(* ------------------------------------------------------------------ *)
(* Part 1: shapes                                                       *)

Leaf == [k |-> "str", f |-> <<>>]
\* a time.Time field: carries no canary and nothing to scrub, but clone.Secure treats it specially ("don't mess with
\* time.Time") - whatever stands next to it in the struct must be treated as if it were not there
TimeLeaf == [k |-> "time", f |-> <<>>]
Edge(t, s) == [t |-> t, s |-> s]
Wrap(k, s) == [k |-> k, f |-> <<Edge("none", s)>>]
Wrappers == {"ptr", "slice", "map", "iface", "array"}
Tags == {"none", "secure"}

(* Field lists of a struct over the child shapes sub: one field, or two   *)
(* fields of which at most one is not a plain string (keeps the number of *)
(* shapes linear in |sub| while every struct position still gets a tagged *)
(* or untagged string sibling before and after it).                       *)
FieldLists(sub) ==
    { <<Edge(t, s)>> : t \in Tags, s \in sub }
    \cup (IF ~Wide THEN {} ELSE
          { <<Edge(t1, Leaf), Edge(t2, s)>> : t1 \in Tags, t2 \in Tags, s \in sub }
          \cup { <<Edge(t1, s), Edge(t2, Leaf)>> : t1 \in Tags, t2 \in Tags, s \in sub }
          \cup { <<Edge("none", TimeLeaf), Edge(t2, s)>> : t2 \in Tags, s \in sub }
          \cup { <<Edge(t1, s), Edge("none", TimeLeaf)>> : t1 \in Tags, s \in sub })
Structs(sub) == { [k |-> "struct", f |-> fl] : fl \in FieldLists(sub) }

RECURSIVE Shapes(_)
Shapes(d) ==
    IF d = 0 THEN {Leaf}
    ELSE LET sub == Shapes(d - 1) IN
         {Leaf} \cup Structs(sub)
         \* an interface value never holds an interface: iface(iface(x)) is not a Go value
         \cup UNION { { Wrap(k, s) : s \in { x \in sub : ~(k = "iface" /\ x.k = "iface") } } : k \in Wrappers }

IsStruct(s) == s.k = "struct"
Roots(d) == { s \in Shapes(d) : IsStruct(s) \/ (s.k = "ptr" /\ IsStruct(s.f[1].s)) }

(* leaves in depth-first field order; gov/arr accumulate along the path *)
RECURSIVE Leaves(_, _, _, _)
Leaves(s, path, gov, arr) ==
    IF s.k = "time" THEN <<>>
    ELSE IF s.k = "str"
    THEN << [p |-> path, governed |-> gov, mustScrub |-> gov /\ ~arr, mustKeep |-> ~gov] >>
    ELSE LET arr2 == arr \/ s.k = "array"
             sub(i) == Leaves(s.f[i].s, Append(path, i), gov \/ (s.k = "struct" /\ s.f[i].t = "secure"), arr2)
         IN IF Len(s.f) = 1 THEN sub(1) ELSE sub(1) \o sub(2)
LeavesOf(s) == Leaves(s, <<>>, FALSE, FALSE)

ShapeCase(s) == [shape |-> s, leaves |-> LeavesOf(s)]

InitShapes == c \in { ShapeCase(s) : s \in Roots(Depth) }

(* ---- model-level properties of part 1 (checked by TLC on every case) ---- *)
RECURSIVE HasSecure(_)
HasSecure(s) == \E i \in 1..Len(s.f) : s.f[i].t = "secure" \/ HasSecure(s.f[i].s)
RECURSIVE HasArray(_)
HasArray(s) == s.k = "array" \/ \E i \in 1..Len(s.f) : HasArray(s.f[i].s)
Verdicts(ls) == [i \in 1..Len(ls) |-> <<ls[i].governed, ls[i].mustScrub, ls[i].mustKeep>>]

\* a leaf is demanded to vanish only when a tag governs it, and never both to vanish and to stay
ScrubSound == \A i \in 1..Len(c.leaves) : /\ c.leaves[i].mustScrub => c.leaves[i].governed
                                          /\ ~(c.leaves[i].mustScrub /\ c.leaves[i].mustKeep)
\* a type without any secure tag must come out of a clone untouched
NoTagNoScrub == ~HasSecure(c.shape) => \A i \in 1..Len(c.leaves) : c.leaves[i].mustKeep
\* without arrays every leaf is decided: it either must vanish or must stay
Decided == ~HasArray(c.shape) => \A i \in 1..Len(c.leaves) : c.leaves[i].mustScrub \/ c.leaves[i].mustKeep
\* "however deeply it is nested": putting the root behind one more pointer, slice, map or
\* interface changes no verdict
NestingInvariant == \A k \in Wrappers \ {"array"} :
                       (~(k = "iface" /\ c.shape.k = "iface")) =>
                           Verdicts(LeavesOf(Wrap(k, c.shape))) = Verdicts(c.leaves)
\* every struct field of the root reaches at least one leaf (no case is empty)
NonTrivial == Len(c.leaves) >= 1

(* ------------------------------------------------------------------ *)
(* Part 2: registry shapes.  Edges are [t, n, s]: tag, name class, child *)

RTags == {"none", "secure", "ignore"}
Names == {"secret", "plain"}
REdge(t, n, s) == [t |-> t, n |-> n, s |-> s]
RStructs(sub) ==
    LET one == { <<REdge(t, n, s)>> : t \in RTags, n \in Names, s \in sub }
        two == { <<REdge(t1, n1, Leaf), REdge(t2, n2, s)>> : t1 \in RTags, n1 \in Names, t2 \in RTags, n2 \in Names, s \in sub }
               \cup { <<REdge(t1, n1, s), REdge(t2, n2, Leaf)>> : t1 \in RTags, n1 \in Names, t2 \in RTags, n2 \in Names, s \in sub }
    IN { [k |-> "struct", f |-> fl] : fl \in one \cup two }
RPtr(s) == [k |-> "ptr", f |-> <<REdge("none", "plain", s)>>]

RECURSIVE RShapes(_)
RShapes(d) ==        \* what a struct field may hold at nesting level d
    IF d = 0 THEN {Leaf}
    ELSE LET below == RShapes(d - 1)
             inner == IF RegWide THEN RStructs(below)
                      ELSE { [k |-> "struct", f |-> <<REdge(t, n, s)>>] : t \in RTags, n \in Names, s \in below }
         IN {Leaf} \cup inner \cup { RPtr(s) : s \in inner }

RECURSIVE Refuses(_)
Refuses(s) ==
    IF s.k = "struct"
    THEN \E i \in 1..Len(s.f) : \/ (s.f[i].n = "secret" /\ s.f[i].t = "none")
                                \/ Refuses(s.f[i].s)
    ELSE IF s.k = "ptr" THEN Refuses(s.f[1].s)
    ELSE FALSE

(* the type is returned by Request() or by Response(), as a value or as a pointer *)
RegCase(s, w, bp) == [shape |-> s, where |-> w, byPtr |-> bp, refuses |-> Refuses(s)]
InitReg == c \in { RegCase(s, w, bp) : s \in RStructs(RShapes(RegDepth - 1)), w \in {"req", "resp"}, bp \in BOOLEAN }

(* ---- model-level properties of part 2 ---- *)
RECURSIVE AllTagged(_)
AllTagged(s) == \A i \in 1..Len(s.f) : (s.k = "struct" => s.f[i].t # "none") /\ AllTagged(s.f[i].s)
RECURSIVE NoSecretName(_)
NoSecretName(s) == \A i \in 1..Len(s.f) : (s.k = "struct" => s.f[i].n = "plain") /\ NoSecretName(s.f[i].s)
\* a type whose fields are all explicitly tagged, or that has no secret-looking name, is accepted
TaggedAccepted == (AllTagged(c.shape) \/ NoSecretName(c.shape)) => ~c.refuses
\* the verdict does not depend on where the type is used
RefusesIsOfType == c.refuses = Refuses(c.shape)

(* ------------------------------------------------------------------ *)
Next == UNCHANGED c
SpecShapes == InitShapes /\ [][Next]_vars
SpecReg == InitReg /\ [][Next]_vars

Emit == PrintT("CASE " \o ToJson(c))
=============================================================================
