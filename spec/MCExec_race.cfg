\* one plan, three callers racing (every interleaving of up to 5 calls), one crash, both recovery modes, aging; no read faults (race3, race4 have them)
SPECIFICATION Spec
CONSTANTS
  Plans <- P1
  Callers <- C3
  MaxCalls = 5
  MaxCrashes = 1
  RecoveryModes <- BothModes
  Ops <- AllOps
  Aging = TRUE
  TwoStep = FALSE
  RecAging = TRUE
  MaxFaults = 0
VIEW view
INVARIANTS TypeOK OneRunner RunnerRegistered NoPanic AtMostOnce StartOnce MutexInv WaitTruth StaleRejected IndexLags
PROPERTIES StartedFromNS TerminalStable OnlyRunningResumed OnlyStaleClosed
CHECK_DEADLOCK FALSE
