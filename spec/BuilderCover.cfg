SPECIFICATION Spec
CONSTANTS MaxLen = 12  MaxKids = 2
INVARIANTS TypeOK
CONSTRAINT Small
ACTION_CONSTRAINT EmitTransition
VIEW CoverView
CHECK_DEADLOCK FALSE
