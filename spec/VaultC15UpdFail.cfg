SPECIFICATION Spec
CONSTANTS
  Ids = {"p1","p2"}
  CIds = {"p1","p2"}
  ShapeNames = {"S1","S2"}
  Ops = {"Create","UpdatePlan","UpdatePlanIOFail","DeleteIOFail"}
  Groups = {1}
  InitVers = {0}
  MaxVer = 3
  MaxLen = 4
  MaxUpd = 99
  Sim = FALSE
  FMax = 1
INVARIANTS TypeOK TimesDistinct EmitAtEnd
PROPERTIES FailNoTrace
CHECK_DEADLOCK FALSE
