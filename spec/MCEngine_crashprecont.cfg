SPECIFICATION Spec
CONSTANTS
  ShapeSet <- ShapesCrashPreCont
  SeqOutcomes <- OkPerm
  ChkOutcomes <- OkPerm
  MaxCrashes = 1
  MaxRuns = 1
  Tolerated <- KnownRecovery
  FnOut = TRUE
  Poller = FALSE
  Aging = FALSE
  Overruns = FALSE
  Gen = "off"
INVARIANTS NoClauseViolated InvQuiescentAtRelease InvDurLagsMem
CHECK_DEADLOCK TRUE
