------------------------------- MODULE Vault -------------------------------
(***************************************************************************)
(* C13, C14, C15.  A storage.Vault (workflow/storage/sqlite and            *)
(* workflow/storage/cosmosdb) as a sequential state machine.               *)
(*                                                                         *)
(* State.  store : Ids -> PlanRec or Absent.  A PlanRec is an ABSTRACT     *)
(* plan: the name of its shape (ShapeDef: which check groups exist at plan *)
(* and block level and how many actions each has, how many blocks,         *)
(* sequences, actions), its group tag g (0 = no group id), its submission  *)
(* number t (clock value of the Create that stored it: larger = newer) and *)
(* ver : object name -> version number of the value LAST WRITTEN for that  *)
(* object (0 = the value written by Create).  Version numbers are abstract;*)
(* the replay maps (plan, object, version) to concrete values drawn from   *)
(* value classes (status, ns times, reason, attempts with typed responses  *)
(* and wrapped errors...).  Only the PLAN object's version has a meaning   *)
(* inside the model: its status is PStatus(version), because Search        *)
(* filters on it.                                                          *)
(*                                                                         *)
(* Object names (a naming convention shared with the replay):              *)
(*   plan | p.<grp> | p.<grp>.a<k> | b<i> | b<i>.<grp> | b<i>.<grp>.a<k>   *)
(*   | b<i>.s<j> | b<i>.s<j>.a<k>        grp in bypass pre post cont deferred *)
(*                                                                         *)
(* One action per vault operation / argument class.  Every step appends to *)
(* hist a record with the operation, its arguments, the EXPECTED REPLY     *)
(*   r   = "ok" | "err" | "any"  ("any": the statement does not say)       *)
(*   x   = expected Exists answer                                          *)
(*   res = expected Search / List result: plan ids, newest submission first*)
(* and s = the abstract store AFTER the step (live id -> non-zero          *)
(* versions), which is what Read of every id must return (C13), what must  *)
(* exist and what must not (C14 census).                                   *)
(*                                                                         *)
(* Where each expectation comes from (properties.jsonl):                   *)
(*  C13 "reading a plan returns exactly what was last written"             *)
(*        -> Create sets every version to 0 (plan: v0), Update* sets ONE   *)
(*           object's version, nothing else changes (UpdateLocal)          *)
(*      "reading an id never created, or deleted, returns an error"        *)
(*        -> Read.r = "err" iff store[id] = Absent                         *)
(*  C14 "creating an id twice fails without altering the first"            *)
(*        -> CreateDup: r = "err", store unchanged                         *)
(*      "all-or-nothing ... an object cannot be encoded midway"            *)
(*        -> CreateFail(bad = the action whose request cannot be encoded): *)
(*           r = "err", store unchanged;  CreateIOFail (the backend refuses*)
(*           the write; only injectable in the cosmosdb fake): the same    *)
(*      "Delete removes the plan ... and nothing belonging to any other"   *)
(*        -> Delete: store'[id] = Absent, every other id unchanged         *)
(*  C15 "Exists is true exactly for plans created and not deleted"         *)
(*        -> x = (store[id] # Absent)                                      *)
(*      "Search returns exactly the plans matching all given filters (one  *)
(*       of the ids, one of the group ids, any of the listed statuses)",   *)
(*      "List returns all plans up to the limit", "newest submission first"*)
(*        -> Matches / Ordered / ListRes.  Limit 0 is read as "no limit"   *)
(*           (documented on cosmosdb reader.List; both implementations     *)
(*           apply a limit only when limit > 0).                           *)
(*  Not said by the statements, hence "any": the reply of Update* and      *)
(*  Delete for an id that does not exist (the store must stay unchanged).  *)
(*                                                                         *)
(* TLC is used as a test generator (PrintT of "CASE <json of hist>"):      *)
(*   Vault*Seq.cfg    every history of length MaxLen (EmitAtEnd)           *)
(*   Vault*Cover.cfg  transition cover: VIEW without the history, one      *)
(*                    history per (abstract store, operation) pair         *)
(*   Vault*Sim.cfg    -simulate, long random histories                     *)
(* and checks the design-level properties at the bottom on the model.      *)
(***************************************************************************)
EXTENDS Naturals, Sequences, FiniteSets, TLC, Json

CONSTANTS Ids,         \* plan ids the histories talk about (strings)
          CIds,        \* ids that may be created; Ids \ CIds are never created
          ShapeNames,  \* shapes Create may use (subset of DOMAIN ShapeDef)
          Ops,         \* enabled operation classes (strings, see Next)
          Groups,      \* group tags Create may use (0 = no group id)
          InitVers,    \* plan versions Create may start from (0 = NotStarted)
          MaxVer,      \* versions written by updates cycle through 1..MaxVer
          MaxLen,      \* longest history
          MaxUpd,      \* bound on updated objects per plan (CONSTRAINT Small)
          FMax,        \* Search filters of single steps use at most FMax values in total
          Sim          \* TRUE in -simulate runs: every argument is drawn at random (one successor per
                       \* operation class instead of all of them; the simulator would otherwise
                       \* compute, and print, every successor of every state of the walk)

GN == {"bypass", "pre", "post", "cont", "deferred"}
NoGroups == [x \in {} |-> 0]
One(S) == [x \in S |-> 1]

(* shapes: pg = plan-level check groups (group -> number of actions), bl = blocks,
   each with its groups g and sq = number of actions of each sequence *)
ShapeDef ==
  [ S1 |-> [pg |-> NoGroups, bl |-> << [g |-> NoGroups, sq |-> <<1>>] >>],
    S2 |-> [pg |-> ("pre" :> 1) @@ ("deferred" :> 2),
            bl |-> << [g |-> ("cont" :> 1), sq |-> <<2, 1>>] >>],
    S3 |-> [pg |-> One(GN),
            bl |-> << [g |-> One(GN), sq |-> <<1>>], [g |-> NoGroups, sq |-> <<1, 2>>] >>],
    \* more than a hundred stored objects (a transactional batch of the service holds at most 100 operations)
    S5 |-> [pg |-> [x \in GN |-> 3],
            bl |-> [b \in 1..3 |-> [g |-> [x \in GN |-> 3], sq |-> <<8, 8, 8>>]]],
    S4 |-> [pg |-> ("post" :> 2),
            bl |-> << [g |-> ("bypass" :> 1) @@ ("post" :> 1), sq |-> <<1>>], [g |-> ("pre" :> 2), sq |-> <<2>>] >>] ]

N2S(i) == ToString(i)
BN(i) == "b" \o N2S(i)
SN(i, j) == BN(i) \o ".s" \o N2S(j)
GChecks(pfx, g) == {pfx \o x : x \in DOMAIN g}
GActs(pfx, g) == UNION { {pfx \o x \o ".a" \o N2S(k) : k \in 1..g[x]} : x \in DOMAIN g }
BIdx(sh) == 1..Len(sh.bl)
ChecksOf(sh) == GChecks("p.", sh.pg) \cup UNION { GChecks(BN(i) \o ".", sh.bl[i].g) : i \in BIdx(sh) }
BlocksOf(sh) == { BN(i) : i \in BIdx(sh) }
SeqsOf(sh) == UNION { { SN(i, j) : j \in 1..Len(sh.bl[i].sq) } : i \in BIdx(sh) }
ActsOf(sh) == GActs("p.", sh.pg)
              \cup UNION { GActs(BN(i) \o ".", sh.bl[i].g) : i \in BIdx(sh) }
              \cup UNION { UNION { { SN(i, j) \o ".a" \o N2S(k) : k \in 1..sh.bl[i].sq[j] } : j \in 1..Len(sh.bl[i].sq) } : i \in BIdx(sh) }
(* object name -> kind, per shape (constant, evaluated once) *)
KindMap == [n \in DOMAIN ShapeDef |->
              LET sh == ShapeDef[n] IN
              [o \in {"plan"} |-> "Plan"] @@ [o \in ChecksOf(sh) |-> "Checks"] @@ [o \in BlocksOf(sh) |-> "Block"]
              @@ [o \in SeqsOf(sh) |-> "Sequence"] @@ [o \in ActsOf(sh) |-> "Action"]]
ObjsOf(n) == DOMAIN KindMap[n]
ActionsOf(n) == {o \in ObjsOf(n) : KindMap[n][o] = "Action"}

Stat == <<"NotStarted", "Running", "Completed", "Failed", "Stopped">>
PStatus(v) == Stat[(v % 5) + 1]

VARIABLES store, clock, hist
vars == <<store, clock, hist>>

Absent == [sh |-> "-", g |-> 0, t |-> 0, ver |-> [o \in {"plan"} |-> 0]]
IsLive(s, i) == s[i].sh # "-"
Live(s) == {i \in Ids : IsLive(s, i)}
NZ(r) == [o \in {x \in DOMAIN r.ver : r.ver[x] # 0} |-> r.ver[o]]
Post(s) == [i \in Live(s) |-> NZ(s[i])]

Init == store = [i \in Ids |-> Absent] /\ clock = 0 /\ hist = <<>>

Emit(rec) == hist' = Append(hist, rec @@ [s |-> Post(store')])

(* ---------------- results of the query operations ---------------- *)
Matches(s, i, f) == /\ IsLive(s, i)
                    /\ (f.i = {} \/ i \in f.i)
                    /\ (f.g = {} \/ s[i].g \in f.g)
                    /\ (f.s = {} \/ PStatus(s[i].ver["plan"]) \in f.s)
(* the ids of S, newest submission first (submission numbers are distinct) *)
Ordered(s, S) == [k \in 1..Cardinality(S) |-> CHOOSE i \in S : Cardinality({j \in S : s[j].t > s[i].t}) = k - 1]
SearchRes(s, f) == Ordered(s, {i \in Ids : Matches(s, i, f)})
ListRes(s, n) == LET all == Ordered(s, Live(s)) IN
                 IF n = 0 \/ n >= Len(all) THEN all ELSE SubSeq(all, 1, n)

FGroups == {1, 2, 9}                       \* 9: a group id no plan ever has
FStats == {PStatus(v) : v \in InitVers \cup 1..MaxVer}
UpTo2(S) == {x \in SUBSET S : Cardinality(x) <= 2}
Filters == {f \in [i : UpTo2(Ids), g : UpTo2(FGroups), s : UpTo2(FStats)] : f.i # {} \/ f.g # {} \/ f.s # {}}
FSize(f) == Cardinality(f.i) + Cardinality(f.g) + Cardinality(f.s)
StepFilters == {f \in Filters : FSize(f) <= FMax}
Limits(s) == {0, 1, Cardinality(Live(s)), Cardinality(Live(s)) + 1}

(* ---------------- operations ---------------- *)
DoCreate(i, sn, g, v0) ==
  LET live == IsLive(store, i)
      rec == [op |-> IF live THEN "CreateDup" ELSE "Create", id |-> i, sh |-> sn, def |-> ShapeDef[sn],
              g |-> g, v |-> v0, st |-> PStatus(v0), t |-> clock + 1, r |-> IF live THEN "err" ELSE "ok"]
  IN /\ clock' = clock + 1
     /\ IF live THEN store' = store      \* C14: creating an id twice fails without altering the first
        ELSE store' = [store EXCEPT ![i] = [sh |-> sn, g |-> g, t |-> clock + 1,
                                            ver |-> [o \in ObjsOf(sn) |-> IF o = "plan" THEN v0 ELSE 0]]]
     /\ Emit(rec)

(* the request of action bad cannot be encoded / the backend refuses the write: nothing is stored *)
DoCreateFail(i, sn, g, bad) ==
  /\ clock' = clock + 1 /\ store' = store
  /\ Emit([op |-> "CreateFail", id |-> i, sh |-> sn, def |-> ShapeDef[sn], g |-> g, v |-> 0, st |-> PStatus(0),
           t |-> clock + 1, bad |-> bad, r |-> "err"])
(* w: which storage operation of the Create is refused.  The first one: Create fails.  A later one (cosmosdb     *)
(* writes the plan's items and its search record in two operations): the implementation may have no such operation,    *)
(* so the reply is not fixed ("any") - but Create stays all-or-nothing: with an error nothing may be left behind,     *)
(* without one the complete plan must be there (the replay then deletes it again, to stay in step with the model).    *)
DoCreateIOFail(i, sn, g, w) ==
  /\ clock' = clock + 1 /\ store' = store
  /\ Emit([op |-> "CreateIOFail", id |-> i, sh |-> sn, def |-> ShapeDef[sn], g |-> g, v |-> 0, st |-> PStatus(0),
           t |-> clock + 1, w |-> w, r |-> IF w = 1 THEN "err" ELSE "any"])

(* Update<Kind>(object o of plan i): the object's last-written version becomes v, nothing else changes.
   On an id that does not exist the reply is not specified and nothing may appear. *)
UpdObjs(i) == IF IsLive(store, i) THEN ObjsOf(store[i].sh) ELSE {"plan", "b1.s1.a1"}
UpdKind(i, o) == IF IsLive(store, i) THEN KindMap[store[i].sh][o] ELSE IF o = "plan" THEN "Plan" ELSE "Action"
NextVers(i, o) == IF ~IsLive(store, i) THEN {1}
                  ELSE IF o = "plan" THEN (1..MaxVer) \ {store[i].ver[o]}
                  ELSE {(store[i].ver[o] % MaxVer) + 1}
DoUpdate(i, o, v) ==
  /\ clock' = clock
  /\ IF IsLive(store, i) THEN store' = [store EXCEPT ![i].ver[o] = v] ELSE store' = store
  /\ Emit([op |-> "Update" \o UpdKind(i, o), id |-> i, obj |-> o, v |-> v, st |-> PStatus(v),
           r |-> IF IsLive(store, i) THEN "ok" ELSE "any"])

(* UpdatePlan of a live plan whose storage operation number w is refused (cosmosdb patches the plan item and then     *)
(* replaces the search record: two operations).  The vault may report an error; whether the new version or the old     *)
(* one is stored is not fixed - but the store must not end up holding BOTH: what Read says about the plan and what      *)
(* List / Search say about it must be the same version.  The model cannot know which one; the step ends the history.    *)
DoUpdateIOFail(i, v, w) ==
  /\ IsLive(store, i)
  /\ clock' = clock /\ store' = store
  /\ Emit([op |-> "UpdatePlanIOFail", id |-> i, obj |-> "plan", v |-> v, st |-> PStatus(v), old |-> PStatus(store[i].ver["plan"]),
           w |-> w, r |-> "any"])

(* Delete of a live plan whose storage operation number w is refused (cosmosdb deletes the plan's items and then the  *)
(* search record: two operations).  Whether the plan is gone afterwards is not fixed, but it must be gone or there for  *)
(* Read, Exists and List alike.  Ends the history, like a refused update.                                               *)
DoDeleteIOFail(i, w) ==
  /\ IsLive(store, i)
  /\ clock' = clock /\ store' = store
  /\ Emit([op |-> "DeleteIOFail", id |-> i, w |-> w, r |-> "any"])

DoRead(i) == /\ UNCHANGED <<store, clock>>
             /\ Emit([op |-> "Read", id |-> i, r |-> IF IsLive(store, i) THEN "ok" ELSE "err"])
DoDelete(i) == /\ clock' = clock
               /\ store' = [store EXCEPT ![i] = Absent]
               /\ Emit([op |-> "Delete", id |-> i, r |-> IF IsLive(store, i) THEN "ok" ELSE "any"])
DoExists(i) == /\ UNCHANGED <<store, clock>>
               /\ Emit([op |-> "Exists", id |-> i, x |-> IsLive(store, i), r |-> "ok"])
DoSearch(f) == /\ UNCHANGED <<store, clock>>
               /\ Emit([op |-> "Search", f |-> f, res |-> SearchRes(store, f), r |-> "ok"])
(* a Search that names no id, no group and no status.  The statement does not say what it answers (the code    *)
(* refuses it); demanded is only what holds of every query: it leaves the store alone, its stream - if there is *)
(* one - is closed, and the vault goes on answering afterwards ("... and terminate").                           *)
DoSearchNone == /\ UNCHANGED <<store, clock>>
                /\ Emit([op |-> "SearchNone", r |-> "any"])
DoList(n) == /\ UNCHANGED <<store, clock>>
             /\ Emit([op |-> "List", n |-> n, res |-> ListRes(store, n), r |-> "ok"])
(* every query at once on the current store: Exists of every id, every filter, every limit *)
DoBulk == /\ UNCHANGED <<store, clock>>
          /\ Emit([op |-> "Queries", r |-> "ok",
                   ex |-> [i \in Ids |-> IsLive(store, i)],
                   se |-> {[f |-> f, res |-> SearchRes(store, f)] : f \in Filters},
                   li |-> {[n |-> n, res |-> ListRes(store, n)] : n \in 0..(Cardinality(Live(store)) + 1)}])

LastOp == IF hist = <<>> THEN "" ELSE hist[Len(hist)].op

P(S) == IF Sim /\ S # {} THEN {RandomElement(S)} ELSE S

Next ==
  /\ Len(hist) < MaxLen
  /\ LastOp \notin {"Queries", "UpdatePlanIOFail", "DeleteIOFail"}      \* the bulk step and a refused update / delete end a history
  /\ \/ "Create" \in Ops /\ \E i \in P(CIds), sn \in P(ShapeNames), g \in P(Groups), v0 \in P(InitVers) : DoCreate(i, sn, g, v0)
     \/ "CreateFail" \in Ops /\ \E i \in P(CIds), sn \in P(ShapeNames), g \in P(Groups) : \E bad \in P(ActionsOf(sn)) : DoCreateFail(i, sn, g, bad)
     \/ "CreateIOFail" \in Ops /\ \E i \in P(CIds), sn \in P(ShapeNames), g \in P(Groups), w \in P({1, 2}) : DoCreateIOFail(i, sn, g, w)
     \/ "Update" \in Ops /\ \E i \in P(Ids) : \E o \in P(UpdObjs(i)) : \E v \in P(NextVers(i, o)) : DoUpdate(i, o, v)
     \/ "UpdatePlan" \in Ops /\ \E i \in P(Ids) : \E v \in P(NextVers(i, "plan")) : DoUpdate(i, "plan", v)
     \/ "DeleteIOFail" \in Ops /\ \E i \in P(Ids), w \in P({1, 2}) : DoDeleteIOFail(i, w)
     \/ "UpdatePlanIOFail" \in Ops /\ \E i \in P(Ids) : \E v \in P(NextVers(i, "plan")), w \in P({1, 2}) : DoUpdateIOFail(i, v, w)
     \/ "Read" \in Ops /\ \E i \in P(Ids) : DoRead(i)
     \/ "Delete" \in Ops /\ \E i \in P(Ids) : DoDelete(i)
     \/ "Exists" \in Ops /\ \E i \in P(Ids) : DoExists(i)
     \/ "Search" \in Ops /\ \E f \in P(StepFilters) : DoSearch(f)
     \/ "SearchNone" \in Ops /\ DoSearchNone
     \/ "List" \in Ops /\ \E n \in P(Limits(store)) : DoList(n)
     \/ "Bulk" \in Ops /\ DoBulk

Spec == Init /\ [][Next]_vars

(* ---------------- bounds ---------------- *)
Small == \A i \in Ids : Cardinality(DOMAIN NZ(store[i])) <= MaxUpd

(* ---------------- design-level properties, checked by TLC on the model ---------------- *)
TypeOK == /\ clock \in 0..MaxLen /\ Len(hist) <= MaxLen
          /\ \A i \in Ids : IsLive(store, i) => /\ store[i].sh \in ShapeNames /\ store[i].t \in 1..clock
                                                 /\ DOMAIN store[i].ver = ObjsOf(store[i].sh)
                                                 /\ \A o \in DOMAIN store[i].ver : store[i].ver[o] \in 0..MaxVer
          /\ \A i \in Ids \ CIds : ~IsLive(store, i)
\* distinct plans have distinct submission numbers (the order "newest first" is total)
TimesDistinct == \A i, j \in Live(store) : i # j => store[i].t # store[j].t
\* C15 "every plan durably Running is returned by a status search"
RunningFound == \A i \in Live(store) :
                  PStatus(store[i].ver["plan"]) = "Running"
                    => \E k \in 1..Len(SearchRes(store, [i |-> {}, g |-> {}, s |-> {"Running"}])) :
                          SearchRes(store, [i |-> {}, g |-> {}, s |-> {"Running"}])[k] = i
\* List(0) is everything, newest first; every limited list is a prefix of it
ListSound == LET all == ListRes(store, 0) IN
             /\ {all[k] : k \in 1..Len(all)} = Live(store)
             /\ \A k \in 1..(Len(all) - 1) : store[all[k]].t > store[all[k + 1]].t
             /\ \A n \in Limits(store) : ListRes(store, n) = SubSeq(all, 1, IF n = 0 \/ n > Len(all) THEN Len(all) ELSE n)
Lst == hist'[Len(hist')]
Stepped == hist' # hist
\* a failed Create, a duplicate Create and every query leave the store alone
FailNoTrace == [][(Stepped /\ Lst.op \in {"CreateDup", "CreateFail", "CreateIOFail", "Read", "Exists", "Search", "SearchNone", "List", "Queries", "UpdatePlanIOFail", "DeleteIOFail"})
                   => store' = store]_vars
\* Delete removes exactly one plan
DeleteExact == [][(Stepped /\ Lst.op = "Delete")
                   => (~IsLive(store', Lst.id) /\ \A j \in Ids \ {Lst.id} : store'[j] = store[j])]_vars
\* an update changes the version of exactly one object of one existing plan and resurrects nothing
UpdateLocal == [][(Stepped /\ Lst.op \in {"UpdatePlan", "UpdateBlock", "UpdateChecks", "UpdateSequence", "UpdateAction"})
                   => /\ \A j \in Ids \ {Lst.id} : store'[j] = store[j]
                      /\ IsLive(store', Lst.id) = IsLive(store, Lst.id)
                      /\ IsLive(store, Lst.id) =>
                           \A o \in DOMAIN store[Lst.id].ver : o # Lst.obj => store'[Lst.id].ver[o] = store[Lst.id].ver[o]]_vars
\* a reply "ok" of Read / "true" of Exists is given exactly for live ids
ReadIffLive == [][(Stepped /\ Lst.op = "Read") => ((Lst.r = "ok") <=> IsLive(store, Lst.id))]_vars

(* ---------------- generators ---------------- *)
EmitAtEnd == (Len(hist) = MaxLen \/ LastOp = "Queries") => PrintT("CASE " \o ToJson(hist))
EmitTransition == (hist' # hist) => PrintT("CASE " \o ToJson(hist'))
\* only the bulk-query transitions (one per abstract store under VIEW StoreView)
EmitBulk == (hist' # hist /\ hist'[Len(hist')].op = "Queries") => PrintT("CASE " \o ToJson(hist'))
\* the cover forgets the history, absolute submission numbers (keeps their order) and the clock
Rank(i) == IF IsLive(store, i) THEN Cardinality({j \in Live(store) : store[j].t > store[i].t}) ELSE 0
CoverView == [i \in Ids |-> [sh |-> store[i].sh, g |-> store[i].g, k |-> Rank(i), ver |-> NZ(store[i])]]
\* coarser: per plan only the shape, group, rank and the plan's own version
StoreView == [i \in Ids |-> [sh |-> store[i].sh, g |-> store[i].g, k |-> Rank(i), v |-> store[i].ver["plan"]]]
=============================================================================
