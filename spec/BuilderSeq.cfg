SPECIFICATION Spec
CONSTANTS MaxLen = 3  MaxKids = 9
INVARIANTS TypeOK EmitAtEnd
PROPERTIES Sticky NoSilentChange PlanOnlyOnce
CHECK_DEADLOCK FALSE
