SPECIFICATION Spec
CONSTANTS
  ShapeSet <- ShapesRetryChk
  SeqOutcomes <- OkPerm
  ChkOutcomes <- OkTrPerm
  MaxCrashes = 0
  MaxRuns = 1
  Tolerated <- NoTol
  FnOut = FALSE
  Poller = FALSE
  Aging = FALSE
  Overruns = TRUE
  Gen = "off"
INVARIANTS NoClauseViolated InvQuiescentAtRelease InvDurLagsMem
CHECK_DEADLOCK TRUE
