------------------------------ MODULE Submit ------------------------------
(***************************************************************************)
(* C16 -- reference semantics of Workstream.Submit's admission rule (and   *)
(* the one extra rule of Start).                                           *)
(*                                                                         *)
(* Statement: "Submit accepts a plan if and only if it is well formed:     *)
(* non-empty names and descriptions, at least one block, sequence and      *)
(* action where required, no engine-owned field (id, state, attempts,      *)
(* reason, submit time) pre-set, keys unique and version 7, timeouts of at *)
(* least five seconds (zero meaning the default), and every action naming  *)
(* a registered plugin that accepts its request.  A rejected plan leaves   *)
(* nothing in storage, an accepted plan receives fresh pairwise-distinct   *)
(* v7 ids, a pristine NotStarted state on every object and a submit time,  *)
(* and Start additionally refuses plans whose check actions use non-check  *)
(* plugins."                                                               *)
(*                                                                         *)
(* What is modelled.  A plan is a TREE: a function from object paths       *)
(* ("plan", "pre", "pre/a1", "b1", "b1/cont", "b1/s2", "b1/s2/a1" ...) to  *)
(* attribute maps.  Every map has "k" (kind: plan | checks | block | seq | *)
(* action) and "par" is kept beside it; all other entries are DEVIATIONS   *)
(* from a valid object of that kind (an object without deviations has a    *)
(* proper name and description, no id/state/..., no key, a 10 s timeout,   *)
(* retries 1, the registered plugin of the right kind and a request that   *)
(* plugin accepts).  The deviations (attribute |-> value):                 *)
(*   name, descr : empty | blank           (plan, block, seq, action)      *)
(*   kids  : nil | empty   -- the slice of children is nil / empty; the    *)
(*                            subtree below is gone                        *)
(*   entry : nil           -- the object is a nil entry of its parent's    *)
(*                            slice (block, seq, action); subtree gone     *)
(*           absent        -- (checks) the group pointer is nil: the group *)
(*                            does not exist, which is perfectly valid     *)
(*   id : set;  state : zero | running;  reason, submit : set (plan);      *)
(*   attempts : set (action)             -- engine-owned fields pre-set    *)
(*   key : v4 | K1 | K2    -- a version-4 key / the shared v7 key K1 / K2  *)
(*   timeout : 0 | 1s | 4999ms | 5s | neg (-1s: below five seconds and not  *)
(*             the zero that means "default") ;  retries : neg             *)
(*   plugin : unknown | blank | otherkind  (otherkind = the non-check      *)
(*            plugin inside a checks group / the check plugin in a seq)    *)
(*   req : bad | wrongtype | nil -- a request the plugin's ValidateReq     *)
(*         rejects (nil: no request at all, which this plugin refuses)     *)
(*                                                                         *)
(* A CASE is a base tree (three small valid plans) and a coherent set of   *)
(* mutations (position, attribute, value); "coherent" = no two mutations   *)
(* of the same attribute of one object and no mutation inside a subtree    *)
(* that another one removes.  TLC enumerates the sets, applies them        *)
(* (Mutated) and computes:                                                 *)
(*   why   = Violations(tree): the well-formedness rules broken, by name   *)
(*   verdict = "accept" (why = {}) | "reject" | "any" (only a blank name   *)
(*           or description: ambiguous, nothing demanded)                  *)
(*   start = "accept" | "refuse" | "any" | "na": what Start must do with   *)
(*           the accepted plan ("any": the statement is silent, e.g. a     *)
(*           check plugin used in a sequence; "na": rejected)              *)
(*   to    = for every action the timeout (ms) the stored plan must have   *)
(*           ("zero meaning the default")                                  *)
(* One JSON line per case: {"base","ms","tree","verdict","why","start","to"}*)
(***************************************************************************)
EXTENDS Naturals, Sequences, FiniteSets, TLC, Json

CONSTANTS Mode,     \* "singles" | "pairs" | "dupkeys" | "sample2" | "sample3" | "benign"
          Sample    \* number of mutation sets drawn in the sample modes (TLC -seed)

VARIABLES base,     \* name of the base tree
          ms,       \* the set of mutations of this case
          tree,     \* Mutated(BaseTree[base], ms)
          why       \* Violations(tree), computed once (TLC does not cache definitions)

(* ------------------------------------------------------------------ *)
(* base trees                                                          *)
(* ------------------------------------------------------------------ *)
Node(p, k, par) == <<p, k, par>>
ActNodes(par, n) == {Node(par \o "/a" \o ToString(i), "action", par) : i \in 1..n}
Group(prefix, owner, name, n) == {Node(prefix \o name, "checks", owner)} \cup ActNodes(prefix \o name, n)
SeqN(b, j, n) == LET me == b \o "/s" \o ToString(j) IN {Node(me, "seq", b)} \cup ActNodes(me, n)
Tree(nodes) == [p \in {n[1] : n \in nodes} |->
                  LET n == CHOOSE n \in nodes : n[1] = p IN [k |-> n[2], par |-> n[3]]]

\* T1: the smallest valid plan.  T2: a plan-level and a block-level check group, a two-action
\* sequence.  T3: two blocks, two sequences, three groups (one with two actions).
BaseTree ==
  [T1 |-> Tree({Node("plan", "plan", ""), Node("b1", "block", "plan")} \cup SeqN("b1", 1, 1)),
   T2 |-> Tree({Node("plan", "plan", ""), Node("b1", "block", "plan")} \cup Group("", "plan", "pre", 1)
               \cup Group("b1/", "b1", "cont", 1) \cup SeqN("b1", 1, 2)),
   T3 |-> Tree({Node("plan", "plan", ""), Node("b1", "block", "plan"), Node("b2", "block", "plan")}
               \cup Group("", "plan", "bypass", 1) \cup Group("", "plan", "deferred", 1)
               \cup Group("b1/", "b1", "post", 2) \cup SeqN("b1", 1, 1) \cup SeqN("b1", 2, 1) \cup SeqN("b2", 1, 1))]
Bases == DOMAIN BaseTree

RECURSIVE Anc(_, _)
Anc(T, q) == IF T[q].par = "" THEN {} ELSE {T[q].par} \cup Anc(T, T[q].par)

(* ------------------------------------------------------------------ *)
(* mutations                                                           *)
(* ------------------------------------------------------------------ *)
M(a, v) == <<a, v>>
Common   == {M("id", "set"), M("state", "zero"), M("state", "running")}
Named    == {M("name", "empty"), M("name", "blank"), M("descr", "empty"), M("descr", "blank")}
Kids     == {M("kids", "nil"), M("kids", "empty")}
Keyed    == {M("key", "v4"), M("key", "K1"), M("key", "K2")}
MutsOf(k) ==
  CASE k = "plan"   -> Common \cup Named \cup Kids \cup {M("reason", "set"), M("submit", "set")}
    [] k = "block"  -> Common \cup Named \cup Kids \cup Keyed \cup {M("entry", "nil")}
    [] k = "seq"    -> Common \cup Named \cup Kids \cup Keyed \cup {M("entry", "nil")}
    [] k = "checks" -> Common \cup Kids \cup Keyed \cup {M("entry", "absent")}
    [] k = "action" -> Common \cup Named \cup Keyed \cup
                       {M("entry", "nil"), M("attempts", "set"), M("retries", "neg"),
                        M("timeout", "0"), M("timeout", "1s"), M("timeout", "4999ms"), M("timeout", "5s"), M("timeout", "neg"),
                        M("plugin", "unknown"), M("plugin", "blank"), M("plugin", "otherkind"),
                        M("req", "bad"), M("req", "wrongtype"), M("req", "nil")}

Mut(p, m)  == [pos |-> p, a |-> m[1], v |-> m[2]]
\* every mutation applicable to the kind of every object of the base tree (a constant function of
\* the base name, so that TLC computes it once)
MutsF      == [b \in Bases |-> UNION {{Mut(p, m) : m \in MutsOf(BaseTree[b][p].k)} : p \in DOMAIN BaseTree[b]}]
Muts(b)    == MutsF[b]

RemovesSubtree(m) == m.a = "kids" \/ m.a = "entry"
\* m1 makes m2 pointless: m2 targets something m1 removed (or the nil entry itself)
Kills(T, m1, m2) == /\ RemovesSubtree(m1)
                    /\ \/ m1.pos \in Anc(T, m2.pos)
                       \/ m1.a = "entry" /\ m2.pos = m1.pos /\ m2 # m1
Coherent(T, s) == \A m1, m2 \in s : (m1 # m2) => /\ ~(m1.pos = m2.pos /\ m1.a = m2.a)
                                                 /\ ~Kills(T, m1, m2)

\* the tree after a coherent set of mutations: removed subtrees are gone, an absent group is gone
\* altogether, every remaining object carries its deviations
Removed(T, s) == {q \in DOMAIN T : \E m \in s : /\ RemovesSubtree(m)
                                                /\ \/ m.pos \in Anc(T, q)
                                                   \/ m.a = "entry" /\ m.v = "absent" /\ m.pos = q}
Mutated(T, s) ==
  [q \in DOMAIN T \ Removed(T, s) |->
     [k |-> T[q].k, par |-> T[q].par,
      d |-> [a \in {m.a : m \in {x \in s : x.pos = q}} |-> (CHOOSE m \in s : m.pos = q /\ m.a = a).v]]]

(* ------------------------------------------------------------------ *)
(* the rules                                                           *)
(* ------------------------------------------------------------------ *)
Has(o, a)    == a \in DOMAIN o.d
Is(o, a, v)  == Has(o, a) /\ o.d[a] = v
IsNil(o)     == Is(o, "entry", "nil")
ChildKind    == [plan |-> "block", block |-> "seq", seq |-> "action", checks |-> "action"]
KidsOf(t, p) == {q \in DOMAIN t : t[q].par = p /\ t[q].k = ChildKind[t[p].k]}

\* Each rule is named after the clause of the statement it transcribes.
Violations(t) ==
  LET O == DOMAIN t
      live == {p \in O : ~IsNil(t[p])}
      some(a) == \E p \in live : Has(t[p], a)
  IN
  \* "non-empty names and descriptions".  A BLANK (white space only) name is ambiguous: it is not
  \* empty literally, the code trims it first.  Both are named here; Verdict makes blank a soft
  \* rule for which neither outcome is demanded.
     (IF \E p \in live : Is(t[p], "name", "empty") THEN {"name empty"} ELSE {})
  \cup (IF \E p \in live : Is(t[p], "name", "blank") THEN {"name blank"} ELSE {})
  \cup (IF \E p \in live : Is(t[p], "descr", "empty") THEN {"description empty"} ELSE {})
  \cup (IF \E p \in live : Is(t[p], "descr", "blank") THEN {"description blank"} ELSE {})
  \* "at least one block, sequence and action where required": every plan has a block, every
  \* block a sequence, every sequence and every existing checks group an action
  \cup (IF \E p \in live : t[p].k = "plan" /\ KidsOf(t, p) = {} THEN {"no blocks"} ELSE {})
  \cup (IF \E p \in live : t[p].k = "block" /\ KidsOf(t, p) = {} THEN {"no sequences"} ELSE {})
  \cup (IF \E p \in live : t[p].k = "seq" /\ KidsOf(t, p) = {} THEN {"no actions in sequence"} ELSE {})
  \cup (IF \E p \in live : t[p].k = "checks" /\ KidsOf(t, p) = {} THEN {"no actions in checks"} ELSE {})
  \* a nil entry is not a block / sequence / action
  \cup (IF \E p \in O : IsNil(t[p]) THEN {"nil entry"} ELSE {})
  \* "no engine-owned field (id, state, attempts, reason, submit time) pre-set"
  \cup (IF some("id") THEN {"id set"} ELSE {})
  \cup (IF some("state") THEN {"state set"} ELSE {})
  \cup (IF some("attempts") THEN {"attempts set"} ELSE {})
  \cup (IF some("reason") THEN {"reason set"} ELSE {})
  \cup (IF some("submit") THEN {"submit time set"} ELSE {})
  \* "keys unique and version 7"
  \cup (IF \E p \in live : Is(t[p], "key", "v4") THEN {"key not v7"} ELSE {})
  \cup (IF \E p, q \in live : p # q /\ Has(t[p], "key") /\ Has(t[q], "key") /\ t[p].d["key"] # "v4"
                             /\ t[p].d["key"] = t[q].d["key"] THEN {"duplicate key"} ELSE {})
  \* "timeouts of at least five seconds (zero meaning the default)"
  \cup (IF \E p \in live : Is(t[p], "timeout", "1s") \/ Is(t[p], "timeout", "4999ms") \/ Is(t[p], "timeout", "neg") THEN {"timeout below 5s"} ELSE {})
  \* "every action naming a registered plugin that accepts its request"
  \cup (IF \E p \in live : Is(t[p], "plugin", "unknown") \/ Is(t[p], "plugin", "blank") THEN {"plugin not registered"} ELSE {})
  \cup (IF \E p \in live : Has(t[p], "req") THEN {"request rejected by plugin"} ELSE {})
  \* negative retries, timeout 0 / 5 s, an absent group, one object with a (v7) key, a plugin of the
  \* other kind: not mentioned by the statement's rule, hence well formed

WellFormed(t) == Violations(t) = {}
Soft == {"name blank", "description blank"}
\* what Submit must do: "accept" iff well formed, "reject" iff a rule of the statement is broken;
\* "any" when only a soft rule is (the weaker reading: no demand; whatever Submit does, the
\* consequences of that outcome -- nothing stored / pristine stored plan -- are still demanded)
VerdictOf(v) == IF v \ Soft # {} THEN "reject" ELSE IF v # {} THEN "any" ELSE "accept"
Verdict(t)   == VerdictOf(Violations(t))

\* "Start additionally refuses plans whose check actions use non-check plugins"
InChecks(t, p) == t[p].k = "action" /\ t[t[p].par].k = "checks"
StartVerdictV(t, v) ==
  IF VerdictOf(v) = "reject" THEN "na"
  ELSE IF \E p \in DOMAIN t : InChecks(t, p) /\ Is(t[p], "plugin", "otherkind") THEN "refuse"
  ELSE IF \E p \in DOMAIN t : Is(t[p], "plugin", "otherkind") THEN "any"   \* check plugin in a sequence: not stated
  ELSE "accept"
StartVerdict(t) == StartVerdictV(t, Violations(t))

\* stored timeout in ms; 10 s is the base objects' timeout, 30 s the default for zero
StoredTimeout(o) == IF Is(o, "timeout", "0") THEN 30000
                    ELSE IF Is(o, "timeout", "5s") THEN 5000
                    ELSE IF Is(o, "timeout", "1s") THEN 1000
                    ELSE IF Is(o, "timeout", "4999ms") THEN 4999
                    ELSE IF Is(o, "timeout", "neg") THEN 0 ELSE 10000
Timeouts(t) == [p \in {q \in DOMAIN t : t[q].k = "action" /\ ~IsNil(t[q])} |-> StoredTimeout(t[p])]

(* ------------------------------------------------------------------ *)
(* families of cases                                                   *)
(* ------------------------------------------------------------------ *)
\* the rules broken by every single mutation (constant, computed once)
SingleV == [b \in Bases |-> [m \in MutsF[b] |-> Violations(Mutated(BaseTree[b], {m}))]]
Singles(b) == {{m} : m \in Muts(b)} \cup {{}}
Pairs(b)   == {s \in {{m1, m2} : m1, m2 \in Muts(b)} : Cardinality(s) = 2 /\ Coherent(BaseTree[b], s)}
\* the same key on two objects (must be rejected) and two different keys (must be accepted),
\* for every pair of key-carrying objects
KeyPos(b)  == {p \in DOMAIN BaseTree[b] : M("key", "K1") \in MutsOf(BaseTree[b][p].k)}
DupKeySets(b) == {s \in {{Mut(p, M("key", "K1")), Mut(q, M("key", v))} : p \in KeyPos(b), q \in KeyPos(b), v \in {"K1", "K2"}} :
                    Cardinality(s) = 2 /\ Coherent(BaseTree[b], s)}
\* seeded random sets of n mutations (d is a dummy so that TLC draws anew for every element)
Draw(b, n, d) == {RandomElement(Muts(b)) : i \in 1..n}
Sampled(b, n) == {s \in {Draw(b, n, d) : d \in 1..Sample} : Cardinality(s) = n /\ Coherent(BaseTree[b], s)}

\* sets of up to four mutations each of which is harmless alone (zero / 5 s timeout, negative
\* retries, absent group, a v7 key, plugin of the other kind): the accepted side of the rule, and
\* the only way to break it there is a duplicate key
Benign(b)    == {m \in Muts(b) : SingleV[b][m] = {}}
DrawB(b, d)  == {RandomElement(Benign(b)) : i \in 1..4}
BenignSets(b) == {s \in {DrawB(b, d) : d \in 1..Sample} : Coherent(BaseTree[b], s)}

Sets(b) == CASE Mode = "singles" -> Singles(b)
             [] Mode = "pairs"   -> Pairs(b)
             [] Mode = "dupkeys" -> DupKeySets(b)
             [] Mode = "sample2" -> Sampled(b, 2)
             [] Mode = "sample3" -> Sampled(b, 3)
             [] Mode = "benign"  -> BenignSets(b)

Init == /\ base \in Bases
        /\ ms \in Sets(base)
        /\ tree = Mutated(BaseTree[base], ms)
        /\ why = Violations(tree)
Next == UNCHANGED <<base, ms, tree, why>>
Spec == Init /\ [][Next]_<<base, ms, tree, why>>

\* emitted tree: per object one flat map, "k" plus the deviations
Flat(t) == [p \in DOMAIN t |-> [a \in {"k"} \cup DOMAIN t[p].d |-> IF a = "k" THEN t[p].k ELSE t[p].d[a]]]
Emit == PrintT("CASE " \o ToJson([base |-> base, ms |-> ms, tree |-> Flat(tree),
                                  verdict |-> VerdictOf(why), why |-> why,
                                  start |-> StartVerdictV(tree, why), to |-> Timeouts(tree)]))

(* ---- design-level invariants of the model (checked by TLC on every case) ---- *)
\* the base plans are valid and startable
ASSUME BasesValid == \A b \in Bases : LET t == Mutated(BaseTree[b], {}) IN WellFormed(t) /\ StartVerdict(t) = "accept"
\* well-formedness is local to objects except for key uniqueness: a coherent set of mutations
\* breaks exactly the rules its members break one by one, plus possibly "duplicate key"
Local == LET each == UNION {SingleV[base][m] : m \in ms}
         IN  /\ each \subseteq why
             /\ why \ each \subseteq {"duplicate key"}
\* the verdicts the statement singles out
Verdicts == LET v == VerdictOf(why) IN
            /\ (\E m \in ms : m.a \in {"id", "state", "attempts", "reason", "submit", "req"}) => v = "reject"
            /\ (\A m \in ms : \/ m.a = "retries" \/ (m.a = "timeout" /\ m.v \in {"0", "5s"})
                              \/ (m.a = "entry" /\ m.v = "absent") \/ (m.a = "plugin" /\ m.v = "otherkind"))
                 => v = "accept"
            /\ (v = "accept") = (why = {})
            /\ StartVerdictV(tree, why) = "refuse" => \E m \in ms : m.a = "plugin" /\ m.v = "otherkind" /\ BaseTree[base][BaseTree[base][m.pos].par].k = "checks"
TypeOK == /\ base \in Bases /\ ms \subseteq Muts(base) /\ Coherent(BaseTree[base], ms)
          /\ \A p \in DOMAIN tree : tree[p].par = "" \/ tree[p].par \in DOMAIN tree
=============================================================================
