SPECIFICATION CSpec
CONSTANTS
  ShapeSet <- TraceShapes
  SeqOutcomes <- AllOut
  ChkOutcomes <- AllOut
  MaxCrashes = 0
  MaxRuns = 1000
  Tolerated <- NoneTolerated
  FnOut = FALSE
  Poller = FALSE
  Aging = FALSE
  Overruns = TRUE
  Gen = "last"
CONSTRAINTS Mark NotYetAccepted
POSTCONDITION Accepted
CHECK_DEADLOCK FALSE
