------------------------------- MODULE Walk -------------------------------
(***************************************************************************)
(* C19 -- reference semantics of workflow/utils/walk.Plan.                 *)
(*                                                                         *)
(* Statement: "Walking a plan yields the plan and every checks group,      *)
(* block, sequence and action in it exactly once, in execution order       *)
(* (bypass, pre, continuous, blocks in order, post, deferred, and likewise *)
(* inside each block), each with the exact chain of ancestors from the     *)
(* plan down to its parent.  It stops immediately when the consumer        *)
(* stops."                                                                 *)
(*                                                                         *)
(* What is modelled.  A plan SHAPE (no names, no plugins: walk only looks  *)
(* at the tree):                                                           *)
(*   g  : for each of the five check groups a variant                      *)
(*          "absent" (nil *Checks), "nil" (group with Actions == nil),     *)
(*          "empty" (Actions == []), "one", "two" (that many actions)      *)
(*   bk : "nil" | "empty" | "list"   -- Plan.Blocks nil / [] / non-empty   *)
(*   bl : the blocks; each block has its own g, and sk/sl for Sequences    *)
(*        (sk like bk; sl[j] in "nil" | "empty" | "one" | "two" is the     *)
(*        Actions slice of sequence j).                                    *)
(* Objects are named by their PATH from the plan:                          *)
(*   "plan", "pre", "pre/a1", "b1", "b1/cont", "b1/cont/a2", "b1/s2",      *)
(*   "b1/s2/a1".  The Go replay builds a real plan for the shape, keeps    *)
(*   path -> pointer, and compares pointer identity.                       *)
(*                                                                         *)
(* WalkOrder(s) is the sequence of items [p |-> path, c |-> chain] the     *)
(* walk has to yield, chain = paths of the ancestors, plan first, parent   *)
(* last (empty for the plan).  Clause "in execution order": the order of   *)
(* the concatenations in PlanW / BlockW / GroupW below IS the order of the *)
(* statement.  Clause "stops immediately": Prefix(s, k) -- a consumer that *)
(* returns false on item k has seen exactly the first k items and is never *)
(* called again; the case lists every k to be tried in "stops".            *)
(*                                                                         *)
(* A CASE (one JSON line per shape):                                       *)
(*   {"shape": s, "order": [{"p":path,"c":[paths]}...], "stops": [k...]}   *)
(* TLC is only the enumerator: Init ranges over the family, the invariant  *)
(* Emit prints the case; the other invariants are design-level facts of    *)
(* the model itself (exactly once, chains are ancestor chains, pre-order,  *)
(* sibling order), checked on every shape of the family.                   *)
(***************************************************************************)
EXTENDS Naturals, Sequences, FiniteSets, TLC, Json

CONSTANTS Core,     \* TRUE: include the exhaustive core family
          Sample,   \* number of shapes drawn (TLC -seed) from the full product family
          MaxB      \* max number of blocks in the sampled family

VARIABLES shape,    \* the plan shape of this case
          order     \* PlanW(shape), computed once (TLC does not cache definitions)

GroupNames == {"bypass", "pre", "cont", "post", "deferred"}
\* "gap": two actions with a nil entry between them - a nil entry is not an object: the walk steps over it
Variants   == {"absent", "nil", "empty", "one", "two", "gap"}     \* of a check group
SeqVars    == {"nil", "empty", "one", "two", "gap"}               \* Actions of a sequence
NActs(v)   == CASE v = "one" -> 1 [] v \in {"two", "gap"} -> 2 [] OTHER -> 0

(* ------------------------------------------------------------------ *)
(* the reference walk                                                  *)
(* ------------------------------------------------------------------ *)
\* r = rank among the children of one parent (statement's execution order), i = index among
\* equals; both are only used by the model's own invariants, not emitted.
Item(p, c, r, i) == [p |-> p, c |-> c, r |-> r, i |-> i]

RECURSIVE Flat(_)
Flat(ss) == IF Len(ss) = 0 THEN <<>> ELSE Head(ss) \o Flat(Tail(ss))

Acts(parent, n, chain) == [i \in 1..n |-> Item(parent \o "/a" \o ToString(i), chain, 1, i)]

Rank == [bypass |-> 1, pre |-> 2, cont |-> 3, body |-> 4, post |-> 5, deferred |-> 6]

\* a check group and then its actions; nothing at all when the group is absent
GroupW(prefix, name, v, chain) ==
    IF v = "absent" THEN <<>>
    ELSE LET me == prefix \o name
         IN  <<Item(me, chain, Rank[name], 1)>> \o Acts(me, NActs(v), Append(chain, me))

Before(prefix, g, chain) == GroupW(prefix, "bypass", g["bypass"], chain)
                            \o GroupW(prefix, "pre", g["pre"], chain)
                            \o GroupW(prefix, "cont", g["cont"], chain)
After(prefix, g, chain)  == GroupW(prefix, "post", g["post"], chain)
                            \o GroupW(prefix, "deferred", g["deferred"], chain)

SeqW(bpath, j, v, chain) ==
    LET me == bpath \o "/s" \o ToString(j)
    IN  <<Item(me, chain, Rank["body"], j)>> \o Acts(me, NActs(v), Append(chain, me))

BlockW(i, b, chain) ==
    LET me == "b" \o ToString(i)
        c2 == Append(chain, me)
    IN  <<Item(me, chain, Rank["body"], i)>>
        \o Before(me \o "/", b.g, c2)
        \o Flat([j \in 1..Len(b.sl) |-> SeqW(me, j, b.sl[j], c2)])
        \o After(me \o "/", b.g, c2)

PlanW(s) ==
    <<Item("plan", <<>>, 1, 1)>>
    \o Before("", s.g, <<"plan">>)
    \o Flat([i \in 1..Len(s.bl) |-> BlockW(i, s.bl[i], <<"plan">>)])
    \o After("", s.g, <<"plan">>)

Strip(o)      == [k \in 1..Len(o) |-> [p |-> o[k].p, c |-> o[k].c]]
WalkOrder(s)  == Strip(PlanW(s))                   \* what a complete walk yields
Prefix(o, k)  == SubSeq(o, 1, k)                   \* what a consumer stopping at item k of o has seen
Stops(o)      == 1..Len(o)                         \* every early-stop position

(* ------------------------------------------------------------------ *)
(* an independent enumeration of the objects of a shape (a set, no     *)
(* order): used to state "every object exactly once" on the model      *)
(* ------------------------------------------------------------------ *)
GroupObjs(prefix, g) ==
    UNION {IF g[n] = "absent" THEN {}
           ELSE {prefix \o n} \cup {prefix \o n \o "/a" \o ToString(i) : i \in 1..NActs(g[n])} : n \in GroupNames}
Objects(s) ==
    {"plan"} \cup GroupObjs("", s.g)
    \cup UNION {LET me == "b" \o ToString(i) IN
                  {me} \cup GroupObjs(me \o "/", s.bl[i].g)
                  \cup UNION {LET q == me \o "/s" \o ToString(j) IN
                                {q} \cup {q \o "/a" \o ToString(a) : a \in 1..NActs(s.bl[i].sl[j])}
                              : j \in 1..Len(s.bl[i].sl)}
                : i \in 1..Len(s.bl)}

(* ------------------------------------------------------------------ *)
(* families of shapes                                                  *)
(* ------------------------------------------------------------------ *)
LevelOf(S, v) == [n \in GroupNames |-> IF n \in S THEN v ELSE "absent"]
LevelCfgs == {LevelOf(S, v) : S \in SUBSET GroupNames, v \in SeqVars}      \* 125: any subset, one variant
None    == LevelOf({}, "one")
AllFive == LevelOf(GroupNames, "one")

SeqCfgs == {[sk |-> "nil", sl |-> <<>>], [sk |-> "empty", sl |-> <<>>]}
           \cup {[sk |-> "list", sl |-> <<a>>] : a \in SeqVars}
           \cup {[sk |-> "list", sl |-> <<a, b>>] : a \in SeqVars, b \in SeqVars}        \* 22
Blk(g, sc)     == [g |-> g, sk |-> sc.sk, sl |-> sc.sl]
Pln(g, bk, bl) == [g |-> g, bk |-> bk, bl |-> bl]
WithBlocks(g, bl) == Pln(g, "list", bl)

b0   == Blk(None, [sk |-> "list", sl |-> <<"one">>])
bAll == Blk(AllFive, [sk |-> "list", sl |-> <<"two", "nil">>])

\* F1: every subset of the groups at plan level x a few block lists (none/all five inside the blocks)
F1 == {Pln(g, "nil", <<>>) : g \in LevelCfgs} \cup {Pln(g, "empty", <<>>) : g \in LevelCfgs}
      \cup {WithBlocks(g, bl) : g \in LevelCfgs, bl \in {<<b0>>, <<bAll>>, <<b0, bAll>>, <<bAll, b0>>}}
\* F2: every subset of the groups at block level x none/all five at plan level, block first/second/both
F2 == UNION {LET B == Blk(g, [sk |-> "list", sl |-> <<"one">>]) IN
               {WithBlocks(pg, bl) : pg \in {None, AllFive}, bl \in {<<B>>, <<B, b0>>, <<b0, B>>, <<B, B>>}}
             : g \in LevelCfgs}
\* F3: structure: 0-2 blocks, 0-2 sequences with 0-2 actions, nil vs empty slices everywhere,
\*     none/all five groups at each level
BlkSimple == {Blk(g, sc) : g \in {None, AllFive}, sc \in SeqCfgs}
F3 == UNION {{Pln(pg, "nil", <<>>), Pln(pg, "empty", <<>>)}
             \cup {WithBlocks(pg, <<b>>) : b \in BlkSimple}
             \cup {WithBlocks(pg, <<b, c>>) : b \in BlkSimple, c \in BlkSimple}
             : pg \in {None, AllFive}}
CoreFamily == F1 \cup F2 \cup F3

\* the full product (every group independently in every variant at every level, up to MaxB
\* blocks): far too big to enumerate, sampled with TLC's seeded RandomElement (-seed).
\* RawRec has a (dummy) parameter so that TLC evaluates it anew for every draw.
FullLevel == [GroupNames -> Variants]
RawRec(d) == [pg |-> RandomElement(FullLevel), n |-> RandomElement(0..MaxB), e |-> RandomElement({"nil", "empty"}),
              bg |-> [j \in 1..MaxB |-> RandomElement(FullLevel)], bs |-> [j \in 1..MaxB |-> RandomElement(SeqCfgs)]]
OfRaw(r) == Pln(r.pg, IF r.n = 0 THEN r.e ELSE "list", [i \in 1..r.n |-> Blk(r.bg[i], r.bs[i])])
Sampled == {OfRaw(r) : r \in {RawRec(d) : d \in 1..Sample}}

Family == (IF Core THEN CoreFamily ELSE {}) \cup Sampled

(* ------------------------------------------------------------------ *)
(* TLC as enumerator                                                   *)
(* ------------------------------------------------------------------ *)
Init == shape \in Family /\ order = PlanW(shape)
Next == UNCHANGED <<shape, order>>
Spec == Init /\ [][Next]_<<shape, order>>

Emit == PrintT("CASE " \o ToJson([shape |-> shape, order |-> Strip(order), stops |-> Stops(order)]))

(* ---- design-level invariants of the model (checked by TLC on every shape) ---- *)
O == order
\* every object of the tree exactly once, nothing else
ExactlyOnce == /\ {O[k].p : k \in 1..Len(O)} = Objects(shape)
               /\ Len(O) = Cardinality(Objects(shape))
\* the plan comes first with an empty chain; every other item's chain is its parent's chain plus
\* the parent, and the parent was yielded before
Chains == /\ O[1].p = "plan" /\ O[1].c = <<>>
          /\ \A k \in 2..Len(O) :
               /\ Len(O[k].c) >= 1 /\ O[k].c[1] = "plan"
               /\ \E j \in 1..(k-1) : /\ O[j].p = O[k].c[Len(O[k].c)]
                                      /\ O[j].c = SubSeq(O[k].c, 1, Len(O[k].c) - 1)
\* pre-order (depth first, parents first): the chain of item k is a prefix of "chain of item k-1
\* followed by item k-1", i.e. the walk either descends into the previous item or returns to one
\* of its ancestors; hence the descendants of an object follow it without interruption
PreOrder == \A k \in 2..Len(O) :
              LET prev == Append(O[k-1].c, O[k-1].p)
              IN  /\ Len(O[k].c) <= Len(prev)
                  /\ SubSeq(prev, 1, Len(O[k].c)) = O[k].c
\* children of one parent come in execution order: bypass, pre, cont, blocks/sequences by index, post, deferred
SiblingOrder == \A i, j \in 1..Len(O) : (i < j /\ O[i].c = O[j].c) =>
                    \/ O[i].r < O[j].r
                    \/ O[i].r = O[j].r /\ O[i].i < O[j].i
\* early stop: the prefix seen by a consumer stopping at k is the first k items, and prefixes grow by one
PrefixOK == \A k \in Stops(O) : /\ Len(Prefix(O, k)) = k
                                /\ \A x \in 1..k : Prefix(O, k)[x] = O[x]
=============================================================================
