SPECIFICATION FairSpec
CONSTANTS
  ShapeSet <- ShapesCrashChk
  SeqOutcomes <- OkPerm
  ChkOutcomes <- OkPerm
  MaxCrashes = 1
  MaxRuns = 2
  Tolerated <- KnownRecoveryAny
  FnOut = FALSE
  Poller = FALSE
  Aging = FALSE
  Overruns = FALSE
  Gen = "off"
PROPERTIES Terminates
CHECK_DEADLOCK TRUE
