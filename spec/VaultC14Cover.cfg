SPECIFICATION Spec
CONSTANTS
  Ids = {"p1","p2","p3"}
  CIds = {"p1","p2"}
  ShapeNames = {"S2","S3","S4"}
  Ops = {"Create","CreateFail","CreateIOFail","Delete","UpdatePlan"}
  Groups = {1}
  InitVers = {0}
  MaxVer = 1
  MaxLen = 8
  MaxUpd = 99
  Sim = FALSE
  FMax = 1
INVARIANTS TypeOK TimesDistinct RunningFound ListSound
ACTION_CONSTRAINT EmitTransition
VIEW StoreView
CHECK_DEADLOCK FALSE
