\* two plans on one Workstream whose vault writes its search index in a second step (cosmosdb), two callers, up to 4 calls, one crash
SPECIFICATION Spec
CONSTANTS
  Plans <- P2
  Callers <- C2
  MaxCalls = 4
  MaxCrashes = 1
  RecoveryModes <- BothModes
  Ops <- CoreOps
  Aging = FALSE
  TwoStep = TRUE
  RecAging = TRUE
  MaxFaults = 0
VIEW view
INVARIANTS TypeOK OneRunner RunnerRegistered NoPanic AtMostOnce StartOnce MutexInv WaitTruth StaleRejected IndexLags
PROPERTIES StartedFromNS TerminalStable OnlyRunningResumed OnlyStaleClosed
CHECK_DEADLOCK FALSE
