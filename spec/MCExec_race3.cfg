\* one plan, three callers racing (every interleaving of up to 3 calls), one crash, both recovery modes, aging
SPECIFICATION Spec
CONSTANTS
  Plans <- P1
  Callers <- C3
  MaxCalls = 3
  MaxCrashes = 1
  RecoveryModes <- BothModes
  Ops <- AllOps
  Aging = TRUE
  TwoStep = FALSE
  RecAging = TRUE
  MaxFaults = 1
VIEW view
INVARIANTS TypeOK OneRunner RunnerRegistered NoPanic AtMostOnce StartOnce MutexInv WaitTruth StaleRejected IndexLags
PROPERTIES StartedFromNS TerminalStable OnlyRunningResumed OnlyStaleClosed
CHECK_DEADLOCK FALSE
