SPECIFICATION Spec
CONSTANTS Core = TRUE  Sample = 2000  MaxB = 3
INVARIANTS ExactlyOnce Chains PreOrder SiblingOrder PrefixOK Emit
CHECK_DEADLOCK FALSE
