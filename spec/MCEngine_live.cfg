SPECIFICATION FairSpec
CONSTANTS
  ShapeSet <- ShapesLive
  SeqOutcomes <- OkPerm
  ChkOutcomes <- OkPerm
  MaxCrashes = 0
  MaxRuns = 2
  Tolerated <- KnownRecovery
  FnOut = FALSE
  Poller = FALSE
  Aging = FALSE
  Overruns = FALSE
  Gen = "off"
PROPERTIES Terminates
CHECK_DEADLOCK TRUE
