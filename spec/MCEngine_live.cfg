SPECIFICATION FairSpec
CONSTANTS
  ShapeSet <- ShapesLive
  SeqOutcomes <- OkPerm
  ChkOutcomes <- OkPerm
  MaxCrashes = 0
  MaxRuns = 2
  Tolerated <- KnownRecovery
  Gen = "off"
PROPERTIES Terminates
CHECK_DEADLOCK TRUE
