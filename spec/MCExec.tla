------------------------------- MODULE MCExec -------------------------------
(* Exhaustive configurations of Exec.tla (see the .cfg files). *)
EXTENDS Exec
P1 == {1}
P2 == {1, 2}
C2 == {1, 2}
C3 == {1, 2, 3}
BothModes == {TRUE, FALSE}
OnlyRecovery == {TRUE}
AllOps == {"submit", "start", "wait", "waitto", "plan", "status"}
CoreOps == {"submit", "start", "wait"}
=============================================================================
