SPECIFICATION GenSpec
CONSTANTS
  ShapeSet <- ShapesTol
  SeqOutcomes <- OkPerm
  ChkOutcomes <- OkPerm
  MaxCrashes = 0
  MaxRuns = 2
  Tolerated <- NoTol
  FnOut = FALSE
  Poller = FALSE
  Aging = FALSE
  Overruns = FALSE
  Gen = "full"
INVARIANTS EmitScn
CHECK_DEADLOCK FALSE
