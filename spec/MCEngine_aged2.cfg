SPECIFICATION Spec
CONSTANTS
  ShapeSet <- ShapesCrash2
  SeqOutcomes <- OkPerm
  ChkOutcomes <- OkPerm
  MaxCrashes = 2
  MaxRuns = 1
  Tolerated <- KnownRecoveryAny
  FnOut = FALSE
  Poller = FALSE
  Aging = TRUE
  Overruns = FALSE
  Gen = "off"
INVARIANTS NoClauseViolated InvQuiescentAtRelease InvDurLagsMem
CHECK_DEADLOCK TRUE
