SPECIFICATION Spec
CONSTANTS
  Ids = {"p1","p2"}
  CIds = {"p1","p2"}
  ShapeNames = {"S5","S1"}
  Ops = {"Create","CreateIOFail","Delete"}
  Groups = {1}
  InitVers = {0}
  MaxVer = 1
  MaxLen = 3
  MaxUpd = 99
  Sim = FALSE
  FMax = 1
INVARIANTS TypeOK TimesDistinct EmitAtEnd
PROPERTIES FailNoTrace DeleteExact
CHECK_DEADLOCK FALSE
