SPECIFICATION TSpec
INVARIANT FastAgrees
CONSTRAINT Save
POSTCONDITION Done
CHECK_DEADLOCK FALSE
