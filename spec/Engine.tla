------------------------------- MODULE Engine -------------------------------
(***************************************************************************)
(* What the coercion engine does, written to be bound to the code:         *)
(* one action per critical section of internal/execute (sm.go, actions.go, *)
(* recovery.go, execute.go) as it is at /repo's HEAD, every durable write   *)
(* its own step, the goroutines of the implementation as separate          *)
(* processes:                                                              *)
(*                                                                         *)
(*   main        the plan goroutine: Start -> PlanBypassChecks ->          *)
(*               PlanPreChecks -> PlanStartContChecks -> ExecuteBlock ->   *)
(*               Block{Bypass,Pre,StartCont}Checks -> ExecuteSequences ->  *)
(*               Block{Post,Deferred}Checks -> BlockEnd -> ... ->          *)
(*               PlanPostChecks -> PlanDeferredChecks -> End -> release    *)
(*   wk[q]       one worker per sequence of the current block (limiter,    *)
(*               failures counter, the launch loop's early return)         *)
(*   am[a]       the action state machine of every action (Start ->        *)
(*               Execute(retry) -> End), plugin entry/exit as events        *)
(*   rn[g]       one run of a check group (runChecksOnce), its actions in  *)
(*               parallel                                                   *)
(*   cl[sc]      the continuous-check loop of the plan (sc = 0) and of     *)
(*               block sc, with its result channel ch[sc], cancel, drain    *)
(*   Crash / NewProcess / Recovery (fixPlan, fixBlock, fixSeq, fixAction,  *)
(*               fixBlock executing partially run sequences itself)         *)
(*                                                                         *)
(* mem is the in-memory plan of the running process, dur the stored plan.  *)
(* Writes that would not change the stored record are elided (an exact     *)
(* reduction: they are invisible to every reader and to recovery).  Time    *)
(* stamps are not modelled.                                                 *)
(*                                                                         *)
(* Every step that is observable from outside emits exactly one event in   *)
(* the alphabet of Props.tla; the observation state obs is advanced with   *)
(* Props!Observe and every clause that is false for the event is recorded  *)
(* in bad.  The properties C01..C10 are therefore checked on the model by  *)
(* the very definitions that judge the traces of the real engine.          *)
(***************************************************************************)
EXTENDS Props, Json

CONSTANTS ShapeSet,     \* the family of plan shapes explored (Init picks one)
          SeqOutcomes,  \* outcomes a sequence action's plugin call may have
          ChkOutcomes,  \* outcomes a check action's plugin call may have
          MaxCrashes,   \* crashes per behaviour
          MaxRuns,      \* runs of one continuous-check loop (ticks) per process lifetime
          Tolerated,    \* clauses allowed to be false (known findings), normally {}
          FnOut,        \* TRUE: a plugin's outcome is a function of the action alone (also across restarts)
          Poller,       \* TRUE: a reader polls the stored plan at any time (Status / Plan), emitting R events
          Overruns,     \* TRUE: a plugin invocation may outlive the action's timeout (recorded as a timeout failure)
          Aging,        \* TRUE: a crash may last longer than the maximum age of a resumable plan (recover.agedOut)
          Gen           \* "off" | "full": hist is the history of observable events (scenario generation)
                        \* | "last": hist = <<last event, parity>> (trace conformance, EngineConf.tla)

GroupsAll == {"bypass", "pre", "cont", "post", "deferred"}
GOrder == <<"bypass", "pre", "cont", "post", "deferred">>

VARIABLES sh,                 \* the shape (never changes)
          mem, dur,           \* [object name -> [st, atts]]   atts: sequence of outcome letters
          mreason, dreason,   \* plan failure reason in memory / stored
          pc, cb,             \* main goroutine: program counter, current block (1..NB+1)
          wk, lim, fails, li, \* sequence workers, limiter tokens in use, failure counter, launch index
          am,                 \* [action name -> action machine state]
          rn,                 \* [group name -> run state]
          cl, ch, runs,       \* cont loops, their channels, ticks used
          waiter, alive, crashes,
          ncall,              \* [action -> plugin calls in this process lifetime]
          fate,               \* [action -> the outcome it had so far | "?"]   (only constrains anything when FnOut)
          wq,                 \* End: objects still to be written by writeEverything
          aged,               \* the plan found Running by the new process is older than the maximum age
          late,               \* invocations that outlived their attempt and have not returned yet: {<<action, call number>>}
          obs, bad, hist

evars == <<sh, mem, dur, mreason, dreason, pc, cb, wk, lim, fails, li, am, rn, cl, ch, runs, waiter, alive, crashes, ncall, fate, wq, aged, late>>
vars == <<evars, obs, bad, hist>>

(* ------------------------------------------------------------------ *)
(* shape helpers                                                      *)
(* ------------------------------------------------------------------ *)
NBk == Len(sh.blocks)
ScopeGroups(sc) == IF sc = 0 THEN sh.pg ELSE sh.blocks[sc].g
Has(sc, g) == ScopeGroups(sc)[g] > 0
CAct(sc, g, i) == Grp(sc, g) \o ".a" \o ToString(i)
GActs(sc, g) == {CAct(sc, g, i) : i \in 1..ScopeGroups(sc)[g]}
NSeq(b) == Len(sh.blocks[b].seqs)
NAct(b, q) == sh.blocks[b].seqs[q]
Conc(b) == sh.blocks[b].conc
Tol(b) == sh.blocks[b].tol
SeqsB(b) == {SeqName(b, q) : q \in 1..NSeq(b)}
ActsQ(b, q) == {ActName(b, q, a) : a \in 1..NAct(b, q)}

\* descriptors in the format of the harness's Config line
DescsOf(s) ==
  LET grp(sc, gs) == UNION {{[obj |-> Grp(sc, g), k |-> "chk", b |-> sc, s |-> 0, a |-> 0, g |-> g, n |-> gs[g]]}
                             \cup {[obj |-> Grp(sc, g) \o ".a" \o ToString(i), k |-> "cact", b |-> sc, s |-> 0, a |-> i, g |-> g, n |-> 0] : i \in 1..gs[g]}
                            : g \in {x \in GroupsAll : gs[x] > 0}}
      blkd(b) == {[obj |-> ScopeName(b), k |-> "blk", b |-> b, s |-> 0, a |-> 0, g |-> "-", n |-> Len(s.blocks[b].seqs)]}
                 \cup grp(b, s.blocks[b].g)
                 \cup UNION {{[obj |-> SeqName(b, q), k |-> "seq", b |-> b, s |-> q, a |-> 0, g |-> "-", n |-> s.blocks[b].seqs[q]]}
                             \cup {[obj |-> ActName(b, q, a), k |-> "act", b |-> b, s |-> q, a |-> a, g |-> "-", n |-> 0] : a \in 1..s.blocks[b].seqs[q]}
                             : q \in 1..Len(s.blocks[b].seqs)} IN
  {[obj |-> "p", k |-> "plan", b |-> 0, s |-> 0, a |-> 0, g |-> "-", n |-> Len(s.blocks)]}
  \cup grp(0, s.pg) \cup UNION {blkd(b) : b \in 1..Len(s.blocks)}

ConfigOf(s) == [ev |-> "Config", objs |-> SetToSeq(DescsOf(s)),
                blocks |-> [b \in 1..Len(s.blocks) |-> [b |-> b, conc |-> s.blocks[b].conc, tol |-> s.blocks[b].tol, nseq |-> Len(s.blocks[b].seqs)]],
                retries |-> s.retries, cretries |-> s.cretries, mode |-> "model", fn |-> FALSE, tag |-> "model"]

ObjNames(s) == {d.obj : d \in DescsOf(s)}
KindOf(o) == obs.dd[o].k
IsAct(o) == KindOf(o) \in {"act", "cact"}
AllActs == {o \in DOMAIN obs.dd : obs.dd[o].k \in {"act", "cact"}}
AllGroups == {o \in DOMAIN obs.dd : obs.dd[o].k = "chk"}
RetriesOf(a) == IF KindOf(a) = "act" THEN sh.retries ELSE sh.cretries

\* objects in the order walk.Plan yields them (writeEverything)
GroupWalk(sc, g) == IF Has(sc, g) THEN <<Grp(sc, g)>> \o [i \in 1..ScopeGroups(sc)[g] |-> CAct(sc, g, i)] ELSE <<>>
SeqWalk(b, q) == <<SeqName(b, q)>> \o [a \in 1..NAct(b, q) |-> ActName(b, q, a)]
BlockWalk(b) == <<ScopeName(b)>> \o GroupWalk(b, "bypass") \o GroupWalk(b, "pre") \o GroupWalk(b, "cont")
                \o FlattenSeq([q \in 1..NSeq(b) |-> SeqWalk(b, q)]) \o GroupWalk(b, "post") \o GroupWalk(b, "deferred")
WalkOrder == <<"p">> \o GroupWalk(0, "bypass") \o GroupWalk(0, "pre") \o GroupWalk(0, "cont")
             \o FlattenSeq([b \in 1..NBk |-> BlockWalk(b)]) \o GroupWalk(0, "post") \o GroupWalk(0, "deferred")

(* ------------------------------------------------------------------ *)
(* records, events                                                    *)
(* ------------------------------------------------------------------ *)
R0 == [st |-> NS, atts |-> <<>>]
LastOf(r) == IF r.atts = <<>> THEN "none"
             ELSE LET x == r.atts[Len(r.atts)] IN
                  CASE x = "o" -> "ok" [] x = "t" -> "tr" [] x = "p" -> "perm" [] x = "w" -> "wrongtype" [] x = "x" -> "timeout" [] OTHER -> "none"
Row(o, r) == [obj |-> o, st |-> r.st, natt |-> Len(r.atts), last |-> LastOf(r), aok |-> TRUE, dig |-> DigStr(r.atts), rtag |-> "",
              s |-> IF r.st = NS THEN 0 ELSE 1, e |-> IF Terminal(r.st) THEN 1 ELSE 0]
SnapSeq(d) == SetToSeq({Row(o, d[o]) : o \in DOMAIN d})

\* the response / error an attempt carries is identified by the invocation that produced it (the harness plugins tag
\* what they return with "<action>@<invocation number>"): the last attempt is always the record of the last invocation
TagOf(o) == IF LastOf(mem[o]) \in {"ok", "tr", "perm"} /\ o \in DOMAIN ncall THEN o \o "@" \o ToString(ncall[o]) ELSE ""
EvW(o) == [ev |-> "W", obj |-> o, k |-> KindOf(o), st |-> mem[o].st, natt |-> Len(mem[o].atts), last |-> LastOf(mem[o]), aok |-> TRUE, rtag |-> TagOf(o)]
EvPS(a, n) == [ev |-> "PStart", obj |-> a, n |-> n, ov |-> FALSE]
EvPE(a, n, out) == [ev |-> "PEnd", obj |-> a, n |-> n, out |-> out, rtag |-> "", ctxdone |-> FALSE]

\* a step that emits event e
Emit(e) == /\ obs' = Observe(obs, e)
           /\ bad' = bad \cup (ViolatedFast(obs, e) \ Tolerated)
           /\ hist' = IF Gen = "full" THEN Append(hist, e) ELSE IF Gen = "last" THEN <<e, 1 - hist[2]>> ELSE hist
Silent == UNCHANGED <<obs, bad, hist>>

\* durable write of object o's in-memory record (only called when it changes the stored record)
Write(o) == dur' = [dur EXCEPT ![o] = mem[o]]
Dirty(o) == dur[o] # mem[o]

(* ------------------------------------------------------------------ *)
(* initial state: a submitted, never started plan                     *)
(* ------------------------------------------------------------------ *)
WK0 == [st |-> "none", k |-> 0]
Init ==
  /\ sh \in ShapeSet
  /\ mem = [o \in ObjNames(sh) |-> R0] /\ dur = mem
  /\ mreason = "FRUnknown" /\ dreason = "FRUnknown"
  /\ pc = "idle" /\ cb = 1
  /\ wk = [o \in {d.obj : d \in {x \in DescsOf(sh) : x.k = "seq"}} |-> WK0]
  /\ lim = 0 /\ fails = 0 /\ li = 1
  /\ am = [o \in {d.obj : d \in {x \in DescsOf(sh) : x.k \in {"act", "cact"}}} |-> "idle"]
  /\ rn = [o \in {d.obj : d \in {x \in DescsOf(sh) : x.k = "chk"}} |-> [st |-> "idle", k |-> 0]]
  /\ cl = [sc \in 0..Len(sh.blocks) |-> "off"]
  /\ ch = [sc \in 0..Len(sh.blocks) |-> [err |-> FALSE, closed |-> FALSE, cancel |-> FALSE, started |-> FALSE]]
  /\ runs = [sc \in 0..Len(sh.blocks) |-> 0]
  /\ waiter = "none" /\ alive = TRUE /\ crashes = 0
  /\ ncall = [o \in {d.obj : d \in {x \in DescsOf(sh) : x.k \in {"act", "cact"}}} |-> 0]
  /\ fate = [o \in {d.obj : d \in {x \in DescsOf(sh) : x.k \in {"act", "cact"}}} |-> "?"]
  /\ wq = <<>> /\ aged = FALSE /\ late = {}
  /\ obs = InitObs(ConfigOf(sh)) /\ bad = {} /\ hist = IF Gen = "last" THEN <<[ev |-> "none"], 0>> ELSE <<>>

(* ------------------------------------------------------------------ *)
(* the action state machine (internal/execute/sm/actions)             *)
(*   idle -> start -> exec -> incall -> watt -> (exec | end) -> done   *)
(* ------------------------------------------------------------------ *)
UNCH_MAIN == UNCHANGED <<sh, aged, late, mreason, dreason, pc, cb, wk, lim, fails, li, rn, cl, ch, runs, waiter, alive, crashes, wq>>

\* Start: NotStarted -> Running, written.  A Running action (check actions, recovered) is not written again.
AStart(a) ==
  /\ am[a] = "start"
  /\ IF mem[a].st = NS
       THEN /\ mem' = [mem EXCEPT ![a].st = RU]
            /\ dur' = [dur EXCEPT ![a] = [mem[a] EXCEPT !.st = RU]]
            /\ Emit([EvW(a) EXCEPT !.st = RU])
       ELSE IF mem[a].st \in {CO, FA} /\ Dirty(a)      \* runAction skips a finished action; its deferred UpdateAction stores
         THEN UNCHANGED mem /\ Write(a) /\ Emit(EvW(a))  \* what recovery (fixAction) had repaired in memory only
         ELSE UNCHANGED <<mem, dur>> /\ Silent
  /\ am' = [am EXCEPT ![a] = IF mem[a].st \in {NS, RU} THEN "exec" ELSE "done"]
  /\ UNCHANGED <<ncall, fate>> /\ UNCH_MAIN
\* exec: out of budget => permanent stop; otherwise the plugin is invoked
AExec(a) ==
  /\ am[a] = "exec"
  /\ IF Len(mem[a].atts) > RetriesOf(a)
       THEN am' = [am EXCEPT ![a] = "end"] /\ UNCHANGED ncall /\ Silent
       ELSE \E ov \in (IF Overruns THEN BOOLEAN ELSE {FALSE}) :      \* ov: this invocation will not return within the timeout
            /\ am' = [am EXCEPT ![a] = IF ov THEN "incall_ov" ELSE "incall"] /\ ncall' = [ncall EXCEPT ![a] = @ + 1]
            /\ Emit([EvPS(a, ncall[a] + 1) EXCEPT !.ov = ov])
  /\ UNCHANGED <<mem, dur, fate>> /\ UNCH_MAIN
\* the action's timeout fires (actions.run: select between the plugin's answer and the attempt's context): the attempt is a
\* retryable timeout failure; the context of the invocation is cancelled, the invocation itself goes on for a while
ATimeout(a) ==
  /\ am[a] = "incall_ov"
  /\ mem' = [mem EXCEPT ![a].atts = Append(@, "x")]
  /\ am' = [am EXCEPT ![a] = "watt"]
  /\ late' = late \cup {<<a, ncall[a]>>}
  /\ Silent
  /\ UNCHANGED <<sh, aged, dur, ncall, fate, mreason, dreason, pc, cb, wk, lim, fails, li, rn, cl, ch, runs, waiter, alive, crashes, wq>>
\* ... and returns later, whatever it returns: nobody is listening any more
ALate(a, n) ==
  /\ alive /\ <<a, n>> \in late
  /\ late' = late \ {<<a, n>>}
  /\ Emit([EvPE(a, n, "overrun") EXCEPT !.ctxdone = TRUE])
  /\ UNCHANGED <<sh, aged, mem, dur, ncall, fate, am, mreason, dreason, pc, cb, wk, lim, fails, li, rn, cl, ch, runs, waiter, alive, crashes, wq>>
LateReturn == \E x \in late : ALate(x[1], x[2])
\* the plugin returns: the attempt is appended (memory)
APEnd(a, out) ==
  /\ am[a] = "incall"
  /\ (FnOut => fate[a] \in {"?", out}) /\ fate' = [fate EXCEPT ![a] = out]
  /\ mem' = [mem EXCEPT ![a].atts = Append(@, Letter(out))]
  /\ am' = [am EXCEPT ![a] = "watt"]
  /\ Emit(EvPE(a, ncall[a], out))
  /\ UNCHANGED <<dur, ncall>> /\ UNCH_MAIN
\* ... and then written; ok / permanent => End, otherwise retry
AWAtt(a) ==
  /\ am[a] = "watt"
  /\ Write(a) /\ Emit(EvW(a))
  /\ am' = [am EXCEPT ![a] = IF LastOf(mem[a]) \in {"tr", "timeout"} THEN "exec" ELSE "end"]
  /\ UNCHANGED <<mem, ncall, fate>> /\ UNCH_MAIN
\* End: Completed iff the last attempt has no error; written
AEnd(a) ==
  /\ am[a] = "end"
  /\ LET st == IF LastOf(mem[a]) = "ok" THEN CO ELSE FA IN
       /\ mem' = [mem EXCEPT ![a].st = st]
       /\ dur' = [dur EXCEPT ![a] = [mem[a] EXCEPT !.st = st]]
       /\ Emit([EvW(a) EXCEPT !.st = st])
  /\ am' = [am EXCEPT ![a] = "done"]
  /\ UNCHANGED <<ncall, fate>> /\ UNCH_MAIN
ActionStep(a) ==
  \/ AStart(a) \/ AExec(a) \/ ATimeout(a) \/ AWAtt(a) \/ AEnd(a)
  \/ \E out \in (IF KindOf(a) = "act" THEN SeqOutcomes ELSE ChkOutcomes) : APEnd(a, out)

(* ------------------------------------------------------------------ *)
(* one run of a check group (runChecksOnce + runActionsParallel)      *)
(*   idle -> mark(k) -> acts -> done(res)      started by its caller   *)
(* ------------------------------------------------------------------ *)
UNCH_RUN == UNCHANGED <<sh, aged, late, mreason, dreason, pc, cb, wk, lim, fails, li, cl, ch, runs, waiter, alive, crashes, wq, ncall, fate>>
GroupScope(g) == obs.dd[g].b
GroupKind(g) == obs.dd[g].g
GActsOf(g) == GActs(GroupScope(g), GroupKind(g))
\* resetActions + every action := Running, each written (k-th action per step)
RMark(g) ==
  /\ rn[g].st = "mark"
  /\ LET n == ScopeGroups(GroupScope(g))[GroupKind(g)]
         k == rn[g].k
         a == CAct(GroupScope(g), GroupKind(g), k) IN
     IF k = 0      \* the group itself is Running while a run is in progress (written)
       THEN /\ mem' = [mem EXCEPT ![g].st = RU]
            /\ IF dur[g].st # RU THEN dur' = [dur EXCEPT ![g].st = RU] /\ Emit([ev |-> "W", obj |-> g, k |-> "chk", st |-> RU, natt |-> 0, last |-> "none", aok |-> TRUE, rtag |-> ""])
                                  ELSE UNCHANGED dur /\ Silent
            /\ rn' = [rn EXCEPT ![g].k = 1] /\ UNCHANGED am
     ELSE IF k > n
       THEN /\ rn' = [rn EXCEPT ![g] = [st |-> "acts", k |-> 0]]
            /\ am' = [x \in DOMAIN am |-> IF x \in GActsOf(g) THEN "start" ELSE am[x]]
            /\ UNCHANGED <<mem, dur>> /\ Silent
       ELSE /\ mem' = [mem EXCEPT ![a] = [st |-> RU, atts |-> <<>>]]
            /\ dur' = [dur EXCEPT ![a] = [st |-> RU, atts |-> <<>>]]
            /\ Emit([ev |-> "W", obj |-> a, k |-> "cact", st |-> RU, natt |-> 0, last |-> "none", aok |-> TRUE, rtag |-> ""])
            /\ rn' = [rn EXCEPT ![g].k = k + 1] /\ UNCHANGED am
  /\ UNCH_RUN
\* join: all actions done => group Completed | Failed, written
RJoin(g) ==
  /\ rn[g].st = "acts" /\ \A a \in GActsOf(g) : am[a] = "done"
  /\ LET st == IF \A a \in GActsOf(g) : mem[a].st = CO THEN CO ELSE FA IN
       /\ mem' = [mem EXCEPT ![g].st = st]
       /\ dur' = [dur EXCEPT ![g] = [mem[g] EXCEPT !.st = st]]
       /\ Emit([ev |-> "W", obj |-> g, k |-> "chk", st |-> st, natt |-> 0, last |-> "none", aok |-> TRUE, rtag |-> ""])
  /\ rn' = [rn EXCEPT ![g] = [st |-> "done", k |-> 0]]
  /\ am' = [x \in DOMAIN am |-> IF x \in GActsOf(g) THEN "idle" ELSE am[x]]
  /\ UNCH_RUN
RunStep(g) == RMark(g) \/ RJoin(g)
StartRun(r, g) == [r EXCEPT ![g] = [st |-> "mark", k |-> 0]]
RunDone(g) == rn[g].st = "done"
RunOK(g) == mem[g].st = CO
ClearRun(r, g) == [r EXCEPT ![g] = [st |-> "idle", k |-> 0]]

(* ------------------------------------------------------------------ *)
(* continuous-check loops (runContChecks) and their channels          *)
(*   off -> wait -> run -> (wait | exit) ; exit closes the channel     *)
(* ------------------------------------------------------------------ *)
UNCH_CL == UNCHANGED <<sh, aged, late, mem, dur, mreason, dreason, pc, cb, wk, lim, fails, li, am, waiter, alive, crashes, wq, ncall, fate>>
CName(sc) == Grp(sc, "cont")
\* select: the ticker fires => one more run (both branches are enabled when cancelled: Go picks either)
CTick(sc) ==
  /\ cl[sc] = "wait" /\ runs[sc] < MaxRuns /\ rn[CName(sc)].st = "idle"
  /\ cl' = [cl EXCEPT ![sc] = "run"] /\ runs' = [runs EXCEPT ![sc] = @ + 1]
  /\ rn' = StartRun(rn, CName(sc))
  /\ UNCHANGED ch /\ Silent /\ UNCH_CL
\* select: cancelled => return (deferred close)
CCancel(sc) ==
  /\ cl[sc] = "wait" /\ ch[sc].cancel
  /\ cl' = [cl EXCEPT ![sc] = "closed"] /\ ch' = [ch EXCEPT ![sc].closed = TRUE]
  /\ UNCHANGED <<rn, runs>> /\ Silent /\ UNCH_CL
\* the run is over: a failure is sent (buffer 1, only ever one error) and the loop returns; a success is not reported
CAfterRun(sc) ==
  /\ cl[sc] = "run" /\ RunDone(CName(sc))
  /\ IF RunOK(CName(sc))
       THEN cl' = [cl EXCEPT ![sc] = "wait"] /\ UNCHANGED ch
       ELSE cl' = [cl EXCEPT ![sc] = "closed"] /\ ch' = [ch EXCEPT ![sc].err = TRUE, ![sc].closed = TRUE]
  /\ rn' = ClearRun(rn, CName(sc))
  /\ UNCHANGED runs /\ Silent /\ UNCH_CL
ContStep(sc) == CTick(sc) \/ CCancel(sc) \/ CAfterRun(sc)
\* reading a channel: an unread error, or closed, or nothing yet
ChanErr(sc) == ch[sc].err
ChanDrained(sc) == ch[sc].closed /\ ~ch[sc].err

(* ------------------------------------------------------------------ *)
(* sequence workers (the goroutine in ExecuteSequences + execSeq)     *)
(*   w0 -> act(k) -> wait(k) -> ... -> rel(res) -> gone                *)
(* ------------------------------------------------------------------ *)
UNCH_WK == UNCHANGED <<sh, aged, late, mreason, dreason, pc, cb, li, rn, cl, ch, runs, waiter, alive, crashes, wq, ncall, fate>>
Exceeded(b) == Tol(b) >= 0 /\ fails > Tol(b)
SeqD(q) == obs.dd[q]
\* defense in depth: threshold already exceeded => nothing runs; else sequence := Running, written
W0(q) ==
  /\ wk[q].st = "w0"
  /\ IF Exceeded(SeqD(q).b) /\ wk[q].k = 0      \* k = 0: launched by ExecuteSequences (recovery's fixBlock has no threshold check)
       THEN /\ wk' = [wk EXCEPT ![q] = [st |-> "rel", k |-> 0]]
            /\ UNCHANGED <<mem, dur>> /\ Silent
       ELSE /\ mem' = [mem EXCEPT ![q].st = RU]
            /\ IF dur[q].st # RU THEN dur' = [dur EXCEPT ![q].st = RU] /\ Emit([ev |-> "W", obj |-> q, k |-> "seq", st |-> RU, natt |-> 0, last |-> "none", aok |-> TRUE, rtag |-> ""])
                                  ELSE UNCHANGED dur /\ Silent
            /\ wk' = [wk EXCEPT ![q] = [st |-> "act", k |-> 1]]
  /\ UNCHANGED <<am, lim, fails>> /\ UNCH_WK
\* next action of the sequence (runAction: terminal actions are skipped / fail the sequence)
WAct(q) ==
  /\ wk[q].st = "act"
  /\ LET d == SeqD(q)  k == wk[q].k  a == ActName(d.b, d.s, k) IN
     IF k > d.n
       THEN /\ mem' = [mem EXCEPT ![q].st = CO] /\ dur' = [dur EXCEPT ![q].st = CO]
            /\ Emit([ev |-> "W", obj |-> q, k |-> "seq", st |-> CO, natt |-> 0, last |-> "none", aok |-> TRUE, rtag |-> ""])
            /\ wk' = [wk EXCEPT ![q] = [st |-> "rel", k |-> 1]] /\ UNCHANGED am
       ELSE /\ am' = [am EXCEPT ![a] = "start"] /\ wk' = [wk EXCEPT ![q].st = "wait"]
            /\ UNCHANGED <<mem, dur>> /\ Silent
  /\ UNCHANGED <<lim, fails>> /\ UNCH_WK
WWait(q) ==
  /\ wk[q].st = "wait"
  /\ LET d == SeqD(q)  k == wk[q].k  a == ActName(d.b, d.s, k) IN
     /\ am[a] = "done"
     /\ am' = [am EXCEPT ![a] = "idle"]
     /\ IF mem[a].st = CO
          THEN wk' = [wk EXCEPT ![q] = [st |-> "act", k |-> k + 1]] /\ UNCHANGED <<mem, dur>> /\ Silent
          ELSE /\ mem' = [mem EXCEPT ![q].st = FA] /\ dur' = [dur EXCEPT ![q].st = FA]
               /\ Emit([ev |-> "W", obj |-> q, k |-> "seq", st |-> FA, natt |-> 0, last |-> "none", aok |-> TRUE, rtag |-> ""])
               /\ wk' = [wk EXCEPT ![q] = [st |-> "rel", k |-> 2]]
  /\ UNCHANGED <<lim, fails>> /\ UNCH_WK
\* back in the goroutine: count the failure, then release the limiter      (k: 0 skipped, 1 ok, 2 failed)
WRel(q) ==
  /\ wk[q].st = "rel"
  /\ fails' = IF wk[q].k = 2 THEN fails + 1 ELSE fails
  /\ lim' = IF pc = "fix_wait" THEN lim ELSE lim - 1
  /\ wk' = [wk EXCEPT ![q] = [st |-> "gone", k |-> 0]]
  /\ UNCHANGED <<mem, dur, am>> /\ Silent /\ UNCH_WK
WorkerStep(q) == W0(q) \/ WAct(q) \/ WWait(q) \/ WRel(q)
WorkersQuiet == \A q \in DOMAIN wk : wk[q].st \in {"none", "gone"}

(* ------------------------------------------------------------------ *)
(* the plan goroutine                                                 *)
(* ------------------------------------------------------------------ *)
UNCH_M == UNCHANGED <<sh, aged, late, alive, crashes, ncall, fate>>
Goto(l) == pc' = l
BlkName == ScopeName(cb)
\* deferred UpdatePlan / UpdateBlock at the end of a state function: only when it changes the stored record
FlushThen(o, next) ==
  IF Dirty(o) THEN /\ Write(o) /\ Emit(EvW(o)) /\ pc' = next
              ELSE /\ UNCHANGED dur /\ Silent /\ pc' = next

\* ---- Start (API) + sm.Start
MStartApi ==
  /\ pc = "idle" /\ alive /\ waiter = "none" /\ dur["p"].st = NS
  /\ waiter' = "open" /\ pc' = "Start"
  /\ Silent      \* the return of Start() races with the plan goroutine's first write: not an ordered event of the model
  /\ UNCHANGED <<mem, dur, mreason, dreason, cb, wk, lim, fails, li, am, rn, cl, ch, runs, wq>> /\ UNCH_M
MStart ==
  /\ pc = "Start"
  /\ mem' = [mem EXCEPT !["p"].st = RU]
  /\ IF dur["p"].st # RU THEN dur' = [dur EXCEPT !["p"].st = RU] /\ Emit([EvW("p") EXCEPT !.st = RU]) ELSE UNCHANGED dur /\ Silent
  /\ pc' = "PlanBypass"
  /\ UNCHANGED <<mreason, dreason, cb, wk, lim, fails, li, am, rn, cl, ch, runs, waiter, wq>> /\ UNCH_M

\* ---- a synchronous run of one group (or of pre || cont) from the main goroutine:
\*      pc "X" starts the runs and moves to "X_j"; "X_j" joins
UNCH_MR == UNCHANGED <<mem, dur, mreason, dreason, cb, wk, lim, fails, li, am, cl, ch, runs, waiter, wq>>
StartRuns(gs) == rn' = [g \in DOMAIN rn |-> IF g \in gs THEN [st |-> "mark", k |-> 0] ELSE rn[g]]
Joined(gs) == \A g \in gs : RunDone(g)
ClearRuns(gs) == rn' = [g \in DOMAIN rn |-> IF g \in gs THEN [st |-> "idle", k |-> 0] ELSE rn[g]]
PreSet(sc) == {Grp(sc, g) : g \in {x \in {"pre", "cont"} : Has(sc, x)}}

MPlanBypass ==
  /\ pc = "PlanBypass"
  /\ IF Has(0, "bypass") /\ mem[Grp(0, "bypass")].st # FA THEN StartRuns({Grp(0, "bypass")}) /\ Goto("PlanBypass_j") ELSE UNCHANGED rn /\ Goto("PlanPre")
  /\ Silent /\ UNCH_MR /\ UNCH_M
MPlanBypassJ ==
  /\ pc = "PlanBypass_j" /\ Joined({Grp(0, "bypass")})
  /\ ClearRuns({Grp(0, "bypass")})
  /\ IF RunOK(Grp(0, "bypass")) THEN Goto("End") /\ ch' = [ch EXCEPT ![0].closed = TRUE] ELSE Goto("PlanPre") /\ UNCHANGED ch
  /\ Silent /\ UNCHANGED <<mem, dur, mreason, dreason, cb, wk, lim, fails, li, am, cl, runs, waiter, wq>> /\ UNCH_M
\* recovered plan: pre-checks that are already Completed are not asked again; the cont group still gets its initial run
PlanPreSet == {g \in PreSet(0) : ~(g = Grp(0, "pre") /\ mem[g].st = CO)}
MPlanPre ==
  /\ pc = "PlanPre"
  /\ IF PlanPreSet = {} THEN UNCHANGED rn /\ Goto("PlanStartCont") ELSE StartRuns(PlanPreSet) /\ Goto("PlanPre_j")
  /\ Silent /\ UNCH_MR /\ UNCH_M
PlanPreRunning == {g \in PreSet(0) : rn[g].st # "idle"}
MPlanPreJ ==
  /\ pc = "PlanPre_j" /\ Joined(PlanPreRunning)
  /\ ClearRuns(PlanPreRunning)
  \* on failure blocks that are already in progress (recovered plan) end with the plan: "fix_def"
  /\ IF \A g \in PlanPreRunning : RunOK(g) THEN Goto("PlanStartCont") ELSE Goto("fix_def")
  /\ Silent /\ UNCH_MR /\ UNCH_M
MPlanStartCont ==
  /\ pc = "PlanStartCont"
  /\ IF Has(0, "cont") THEN cl' = [cl EXCEPT ![0] = "wait"] /\ ch' = [ch EXCEPT ![0].started = TRUE]
                       ELSE UNCHANGED cl /\ ch' = [ch EXCEPT ![0].closed = TRUE]
  /\ Goto("ExecBlock") /\ Silent
  /\ UNCHANGED <<mem, dur, mreason, dreason, cb, wk, lim, fails, li, am, rn, runs, waiter, wq>> /\ UNCH_M

\* ---- ExecuteBlock: no block left => PlanPostChecks; terminal head => next; else block := Running (written)
MExecBlock ==
  /\ pc = "ExecBlock"
  /\ IF cb > NBk THEN Goto("PlanPost") /\ UNCHANGED <<mem, dur, cb>> /\ Silent
     ELSE IF mem[BlkName].st \in {CO, FA}     \* skipBlock; the deferred UpdateBlock stores what recovery fixed in memory
          THEN /\ cb' = cb + 1 /\ UNCHANGED <<pc, mem>>
               /\ IF Dirty(BlkName) THEN Write(BlkName) /\ Emit(EvW(BlkName)) ELSE UNCHANGED dur /\ Silent
     ELSE /\ mem' = [mem EXCEPT ![BlkName].st = RU]
          /\ IF dur[BlkName].st # RU THEN dur' = [dur EXCEPT ![BlkName].st = RU] /\ Emit([EvW(BlkName) EXCEPT !.st = RU])
                                      ELSE UNCHANGED dur /\ Silent
          /\ Goto("BlockBypass") /\ UNCHANGED cb
  /\ UNCHANGED <<mreason, dreason, wk, lim, fails, li, am, rn, cl, ch, runs, waiter, wq>> /\ UNCH_M
MBlockBypass ==
  /\ pc = "BlockBypass"
  /\ IF Has(cb, "bypass") /\ mem[Grp(cb, "bypass")].st # FA THEN StartRuns({Grp(cb, "bypass")}) /\ Goto("BlockBypass_j")
                                                              ELSE UNCHANGED rn /\ Goto("BlockPre")
  /\ Silent /\ UNCH_MR /\ UNCH_M
MBlockBypassJ ==
  /\ pc = "BlockBypass_j" /\ Joined({Grp(cb, "bypass")})
  /\ ClearRuns({Grp(cb, "bypass")})
  /\ IF RunOK(Grp(cb, "bypass")) THEN Goto("BlockEnd") /\ ch' = [ch EXCEPT ![cb].closed = TRUE] ELSE Goto("BlockPre") /\ UNCHANGED ch
  /\ Silent /\ UNCHANGED <<mem, dur, mreason, dreason, cb, wk, lim, fails, li, am, cl, runs, waiter, wq>> /\ UNCH_M
\* BlockPreChecks: pre || cont initial run.  In a block resumed after a crash pre-checks that are Completed are not asked
\* again and a cont group that is Completed has had its initial run; a cont group whose run was interrupted (reset by
\* recovery) gets its run here.
BlockPreSet(b) ==
  LET preDone == Has(b, "pre") /\ mem[Grp(b, "pre")].st = CO IN
  {g \in PreSet(b) : ~(g = Grp(b, "pre") /\ preDone) /\ ~(g = Grp(b, "cont") /\ preDone /\ mem[Grp(b, "cont")].st = CO)}
MBlockPre ==
  /\ pc = "BlockPre"
  /\ IF BlockPreSet(cb) = {} THEN UNCHANGED rn /\ Goto("BlockStartCont") ELSE StartRuns(BlockPreSet(cb)) /\ Goto("BlockPre_j")
  /\ Silent /\ UNCH_MR /\ UNCH_M
BlockPreRunning == {g \in PreSet(cb) : rn[g].st # "idle"}
MBlockPreJ ==
  /\ pc = "BlockPre_j" /\ Joined(BlockPreRunning)
  /\ ClearRuns(BlockPreRunning)
  /\ IF \A g \in BlockPreRunning : RunOK(g)
       THEN Goto("BlockStartCont") /\ UNCHANGED <<mem, dur>> /\ Silent
       ELSE /\ mem' = [mem EXCEPT ![BlkName].st = FA] /\ dur' = [dur EXCEPT ![BlkName].st = FA]
            /\ Emit([EvW(BlkName) EXCEPT !.st = FA]) /\ Goto("BlockDeferred")
  /\ UNCHANGED <<mreason, dreason, cb, wk, lim, fails, li, am, cl, ch, runs, waiter, wq>> /\ UNCH_M
MBlockStartCont ==
  /\ pc = "BlockStartCont"
  /\ IF Has(cb, "cont") THEN cl' = [cl EXCEPT ![cb] = "wait"] /\ ch' = [ch EXCEPT ![cb].started = TRUE]
                        ELSE UNCHANGED cl /\ ch' = [ch EXCEPT ![cb].closed = TRUE]
  /\ Goto("ES_init") /\ Silent
  /\ UNCHANGED <<mem, dur, mreason, dreason, cb, wk, lim, fails, li, am, rn, runs, waiter, wq>> /\ UNCH_M

\* ---- ExecuteSequences
MESInit ==
  /\ pc = "ES_init"
  /\ fails' = Cardinality({q \in SeqsB(cb) : mem[q].st = FA}) /\ li' = 1 /\ lim' = 0
  /\ wk' = [q \in DOMAIN wk |-> WK0]
  /\ Goto("ES_loop") /\ Silent
  /\ UNCHANGED <<mem, dur, mreason, dreason, cb, am, rn, cl, ch, runs, waiter, wq>> /\ UNCH_M
\* one iteration of the launch loop up to the limiter
MESLoop ==
  /\ pc = "ES_loop"
  /\ IF li > NSeq(cb) THEN Goto("ES_wait") /\ UNCHANGED <<li, ch>>
     ELSE IF mem[SeqName(cb, li)].st \in {CO, FA} THEN li' = li + 1 /\ UNCHANGED <<pc, ch>>
     \* contChecksPassing: non-blocking receive on the plan's and the block's channel
     ELSE IF ChanErr(0) THEN Goto("ES_failwait") /\ ch' = [ch EXCEPT ![0].err = FALSE] /\ UNCHANGED li
     ELSE IF ChanErr(cb) THEN Goto("ES_failwait") /\ ch' = [ch EXCEPT ![cb].err = FALSE] /\ UNCHANGED li
     ELSE IF Exceeded(cb) THEN Goto("ES_failwait") /\ UNCHANGED <<li, ch>>
     ELSE Goto("ES_acq") /\ UNCHANGED <<li, ch>>
  /\ Silent /\ UNCHANGED <<mem, dur, mreason, dreason, cb, wk, lim, fails, am, rn, cl, runs, waiter, wq>> /\ UNCH_M
\* limiter <- struct{}{} ; g.Go(...)
MESAcq ==
  /\ pc = "ES_acq" /\ lim < Conc(cb)
  /\ lim' = lim + 1 /\ wk' = [wk EXCEPT ![SeqName(cb, li)] = [st |-> "w0", k |-> 0]] /\ li' = li + 1
  /\ Goto("ES_loop") /\ Silent
  /\ UNCHANGED <<mem, dur, mreason, dreason, cb, fails, am, rn, cl, ch, runs, waiter, wq>> /\ UNCH_M
\* early exit: wait for the sequences already started, block := Failed
MESFailWait ==
  /\ pc = "ES_failwait" /\ WorkersQuiet
  /\ mem' = [mem EXCEPT ![BlkName].st = FA] /\ Goto("BlockDeferred") /\ Silent
  /\ UNCHANGED <<dur, mreason, dreason, cb, wk, lim, fails, li, am, rn, cl, ch, runs, waiter, wq>> /\ UNCH_M
\* g.Wait ; re-check of the threshold
MESWait ==
  /\ pc = "ES_wait" /\ WorkersQuiet
  /\ IF Exceeded(cb) THEN mem' = [mem EXCEPT ![BlkName].st = FA] /\ Goto("BlockDeferred")
                     ELSE UNCHANGED mem /\ Goto("BlockPost")
  /\ Silent /\ UNCHANGED <<dur, mreason, dreason, cb, wk, lim, fails, li, am, rn, cl, ch, runs, waiter, wq>> /\ UNCH_M

\* ---- BlockPostChecks / BlockDeferredChecks / BlockEnd
MBlockPost ==
  /\ pc = "BlockPost"
  /\ IF Has(cb, "post") /\ mem[Grp(cb, "post")].st # CO THEN StartRuns({Grp(cb, "post")}) /\ Goto("BlockPost_j")
                                                         ELSE UNCHANGED rn /\ Goto("BlockDeferred")
  /\ Silent /\ UNCH_MR /\ UNCH_M
MBlockPostJ ==
  /\ pc = "BlockPost_j" /\ Joined({Grp(cb, "post")})
  /\ ClearRuns({Grp(cb, "post")})
  /\ IF RunOK(Grp(cb, "post")) THEN UNCHANGED mem ELSE mem' = [mem EXCEPT ![BlkName].st = FA]
  /\ Goto("BlockPost_w") /\ Silent
  /\ UNCHANGED <<dur, mreason, dreason, cb, wk, lim, fails, li, am, cl, ch, runs, waiter, wq>> /\ UNCH_M
MBlockPostW ==
  /\ pc = "BlockPost_w" /\ FlushThen(BlkName, "BlockDeferred")
  /\ UNCHANGED <<mem, mreason, dreason, cb, wk, lim, fails, li, am, rn, cl, ch, runs, waiter, wq>> /\ UNCH_M
\* deferred checks run once: a group that is already Completed is skipped, one that is already Failed (resumed block) fails the block
MBlockDeferred ==
  /\ pc = "BlockDeferred"
  /\ IF Has(cb, "deferred") /\ mem[Grp(cb, "deferred")].st \notin {CO, FA}
       THEN StartRuns({Grp(cb, "deferred")}) /\ Goto("BlockDeferred_j") /\ UNCHANGED mem
       ELSE /\ UNCHANGED rn /\ Goto("BlockDeferred_w")
            /\ IF Has(cb, "deferred") /\ mem[Grp(cb, "deferred")].st = FA THEN mem' = [mem EXCEPT ![BlkName].st = FA] ELSE UNCHANGED mem
  /\ Silent /\ UNCHANGED <<dur, mreason, dreason, cb, wk, lim, fails, li, am, cl, ch, runs, waiter, wq>> /\ UNCH_M
MBlockDeferredJ ==
  /\ pc = "BlockDeferred_j" /\ Joined({Grp(cb, "deferred")})
  /\ ClearRuns({Grp(cb, "deferred")})
  /\ IF RunOK(Grp(cb, "deferred")) THEN UNCHANGED mem ELSE mem' = [mem EXCEPT ![BlkName].st = FA]
  /\ Goto("BlockDeferred_w") /\ Silent
  /\ UNCHANGED <<dur, mreason, dreason, cb, wk, lim, fails, li, am, cl, ch, runs, waiter, wq>> /\ UNCH_M
MBlockDeferredW ==
  /\ pc = "BlockDeferred_w" /\ FlushThen(BlkName, "BlockEnd")
  /\ UNCHANGED <<mem, mreason, dreason, cb, wk, lim, fails, li, am, rn, cl, ch, runs, waiter, wq>> /\ UNCH_M
\* BlockEnd: bypassed => Completed; else cancel the loop, drain if it was started
MBlockEnd ==
  /\ pc = "BlockEnd"
  /\ IF Has(cb, "bypass") /\ mem[Grp(cb, "bypass")].st = CO
       THEN mem' = [mem EXCEPT ![BlkName].st = CO] /\ Goto("BlockEnd_w") /\ UNCHANGED ch
       ELSE /\ ch' = [ch EXCEPT ![cb].cancel = TRUE] /\ UNCHANGED mem
            /\ IF Has(cb, "cont") /\ ch[cb].started THEN Goto("BlockEnd_drain") ELSE Goto("BlockEnd_fin")
  /\ Silent /\ UNCHANGED <<dur, mreason, dreason, cb, wk, lim, fails, li, am, rn, cl, runs, waiter, wq>> /\ UNCH_M
MBlockEndDrain ==
  /\ pc = "BlockEnd_drain" /\ (ChanErr(cb) \/ ChanDrained(cb))
  /\ IF ChanErr(cb) THEN /\ ch' = [ch EXCEPT ![cb].err = FALSE] /\ mem' = [mem EXCEPT ![BlkName].st = FA] /\ Goto("BlockEnd_w")
                    ELSE UNCHANGED <<ch, mem>> /\ Goto("BlockEnd_fin")
  /\ Silent /\ UNCHANGED <<dur, mreason, dreason, cb, wk, lim, fails, li, am, rn, cl, runs, waiter, wq>> /\ UNCH_M
MBlockEndFin ==
  /\ pc = "BlockEnd_fin"
  /\ mem' = [mem EXCEPT ![BlkName].st = IF mem[BlkName].st = RU THEN CO ELSE FA]
  /\ Goto("BlockEnd_w") /\ Silent
  /\ UNCHANGED <<dur, mreason, dreason, cb, wk, lim, fails, li, am, rn, cl, ch, runs, waiter, wq>> /\ UNCH_M
MBlockEndW ==
  /\ pc = "BlockEnd_w"
  /\ IF Dirty(BlkName) THEN Write(BlkName) /\ Emit(EvW(BlkName)) ELSE UNCHANGED dur /\ Silent
  /\ IF mem[BlkName].st = CO THEN cb' = cb + 1 /\ Goto("ExecBlock") ELSE UNCHANGED cb /\ Goto("PlanDeferred")
  /\ UNCHANGED <<mem, mreason, dreason, wk, lim, fails, li, am, rn, cl, ch, runs, waiter, wq>> /\ UNCH_M

\* ---- PlanPostChecks / PlanDeferredChecks
MPlanPost ==
  /\ pc = "PlanPost"
  /\ ch' = [ch EXCEPT ![0].cancel = TRUE]
  /\ IF Has(0, "cont") /\ ch[0].started THEN Goto("PlanPost_drain") ELSE Goto("PlanPost_run")
  /\ Silent /\ UNCHANGED <<mem, dur, mreason, dreason, cb, wk, lim, fails, li, am, rn, cl, runs, waiter, wq>> /\ UNCH_M
MPlanPostDrain ==
  /\ pc = "PlanPost_drain" /\ (ChanErr(0) \/ ChanDrained(0))
  /\ IF ChanErr(0) THEN ch' = [ch EXCEPT ![0].err = FALSE] /\ Goto("PlanDeferred") ELSE UNCHANGED ch /\ Goto("PlanPost_run")
  /\ Silent /\ UNCHANGED <<mem, dur, mreason, dreason, cb, wk, lim, fails, li, am, rn, cl, runs, waiter, wq>> /\ UNCH_M
MPlanPostRun ==
  /\ pc = "PlanPost_run"
  /\ IF Has(0, "post") /\ mem[Grp(0, "post")].st \notin {CO, FA} THEN StartRuns({Grp(0, "post")}) /\ Goto("PlanPost_j")
                                                                  ELSE UNCHANGED rn /\ Goto("PlanDeferred")
  /\ Silent /\ UNCH_MR /\ UNCH_M
MPlanPostJ ==
  /\ pc = "PlanPost_j" /\ Joined({Grp(0, "post")})
  /\ ClearRuns({Grp(0, "post")}) /\ Goto("PlanDeferred")
  /\ Silent /\ UNCH_MR /\ UNCH_M
MPlanDeferred ==
  /\ pc = "PlanDeferred"
  /\ IF Has(0, "deferred") /\ mem[Grp(0, "deferred")].st \notin {CO, FA} THEN StartRuns({Grp(0, "deferred")}) /\ Goto("PlanDeferred_j")
                                                                          ELSE UNCHANGED rn /\ Goto("End")
  /\ Silent /\ UNCH_MR /\ UNCH_M
MPlanDeferredJ ==
  /\ pc = "PlanDeferred_j" /\ Joined({Grp(0, "deferred")})
  /\ ClearRuns({Grp(0, "deferred")}) /\ Goto("End")
  /\ Silent /\ UNCH_MR /\ UNCH_M

\* ---- End: cancel + drain the plan loop, finalStates, writeEverything, release the waiter
MEnd ==
  /\ pc = "End"
  /\ ch' = [ch EXCEPT ![0].cancel = TRUE]
  /\ IF ch[0].started THEN Goto("End_drain") ELSE Goto("End_final")
  /\ Silent /\ UNCHANGED <<mem, dur, mreason, dreason, cb, wk, lim, fails, li, am, rn, cl, runs, waiter, wq>> /\ UNCH_M
MEndDrain ==
  /\ pc = "End_drain" /\ ch[0].closed
  /\ ch' = [ch EXCEPT ![0].err = FALSE] /\ Goto("End_final")
  /\ Silent /\ UNCHANGED <<mem, dur, mreason, dreason, cb, wk, lim, fails, li, am, rn, cl, runs, waiter, wq>> /\ UNCH_M
\* finalStates exactly as coded: bypass, then pre, cont, post, deferred (a post group that never ran is skipped), then blocks
ExamineChecks ==
  LET st(g) == mem[Grp(0, g)].st
      bad4 == [g \in {"pre", "cont", "post", "deferred"} |-> Has(0, g) /\ st(g) # CO /\ ~(g = "post" /\ st(g) = NS)] IN
  IF bad4["pre"] THEN "FRPreCheck" ELSE IF bad4["cont"] THEN "FRContCheck" ELSE IF bad4["post"] THEN "FRPostCheck"
  ELSE IF bad4["deferred"] THEN "FRDeferredCheck" ELSE "FRUnknown"
FinalVerdict ==
  IF Has(0, "bypass") /\ mem[Grp(0, "bypass")].st = CO THEN <<CO, mreason>>
  ELSE IF ExamineChecks # "FRUnknown" THEN <<FA, ExamineChecks>>
  ELSE IF \E b \in 1..NBk : mem[ScopeName(b)].st # CO THEN <<FA, "FRBlock">>
  ELSE <<CO, mreason>>
MEndFinal ==
  /\ pc = "End_final"
  /\ mem' = [mem EXCEPT !["p"].st = FinalVerdict[1]] /\ mreason' = FinalVerdict[2]
  /\ wq' = WalkOrder /\ Goto("End_write") /\ Silent
  /\ UNCHANGED <<dur, dreason, cb, wk, lim, fails, li, am, rn, cl, ch, runs, waiter>> /\ UNCH_M
\* writeEverything: one object per step, in walk order, no-op writes elided
RECURSIVE SkipClean(_)
SkipClean(q) == IF q = <<>> THEN q ELSE IF Dirty(Head(q)) \/ (Head(q) = "p" /\ dreason # mreason) THEN q ELSE SkipClean(Tail(q))
MEndWrite ==
  /\ pc = "End_write"
  /\ LET q == SkipClean(wq) IN
     IF q = <<>> THEN /\ Goto("Release") /\ wq' = <<>> /\ UNCHANGED <<dur, dreason>> /\ Silent
     ELSE /\ Write(Head(q)) /\ dreason' = IF Head(q) = "p" THEN mreason ELSE dreason
          /\ Emit(EvW(Head(q))) /\ wq' = Tail(q) /\ UNCHANGED pc
  /\ UNCHANGED <<mem, mreason, cb, wk, lim, fails, li, am, rn, cl, ch, runs, waiter>> /\ UNCH_M
\* runPlan's deferred cleanup closes the waiter; Wait returns what is stored
MRelease ==
  /\ pc = "Release"
  /\ waiter' = "closed" /\ Goto("finished")
  /\ Emit([ev |-> "WaitRet", ok |-> TRUE, snap |-> SnapSeq(dur), reason |-> dreason, infl |-> Cardinality({a \in DOMAIN am : am[a] = "incall"})])
  /\ UNCHANGED <<mem, dur, mreason, dreason, cb, wk, lim, fails, li, am, rn, cl, ch, runs, wq>> /\ UNCH_M

MainStep ==
  \/ MStartApi \/ MStart \/ MPlanBypass \/ MPlanBypassJ \/ MPlanPre \/ MPlanPreJ \/ MPlanStartCont
  \/ MExecBlock \/ MBlockBypass \/ MBlockBypassJ \/ MBlockPre \/ MBlockPreJ \/ MBlockStartCont
  \/ MESInit \/ MESLoop \/ MESAcq \/ MESFailWait \/ MESWait
  \/ MBlockPost \/ MBlockPostJ \/ MBlockPostW \/ MBlockDeferred \/ MBlockDeferredJ \/ MBlockDeferredW
  \/ MBlockEnd \/ MBlockEndDrain \/ MBlockEndFin \/ MBlockEndW
  \/ MPlanPost \/ MPlanPostDrain \/ MPlanPostRun \/ MPlanPostJ \/ MPlanDeferred \/ MPlanDeferredJ
  \/ MEnd \/ MEndDrain \/ MEndFinal \/ MEndWrite \/ MRelease

(* ------------------------------------------------------------------ *)
(* crash, new process, recovery (sm/recovery.go)                      *)
(* ------------------------------------------------------------------ *)
Crash ==
  /\ alive /\ crashes < MaxCrashes /\ pc \notin {"idle", "finished"}
  /\ alive' = FALSE /\ crashes' = crashes + 1
  /\ pc' = "dead" /\ waiter' = "none"
  /\ wk' = [q \in DOMAIN wk |-> WK0] /\ lim' = 0 /\ fails' = 0 /\ li' = 1
  /\ am' = [a \in DOMAIN am |-> "idle"] /\ rn' = [g \in DOMAIN rn |-> [st |-> "idle", k |-> 0]]
  /\ cl' = [sc \in DOMAIN cl |-> "off"]
  /\ ch' = [sc \in DOMAIN ch |-> [err |-> FALSE, closed |-> FALSE, cancel |-> FALSE, started |-> FALSE]]
  /\ runs' = [sc \in DOMAIN runs |-> 0] /\ ncall' = [a \in DOMAIN ncall |-> 0] /\ wq' = <<>>
  /\ mem' = dur /\ mreason' = dreason           \* what the next process will read
  \* the process may stay down for longer than the configured maximum (WithMaxLastUpdate): the plan has aged out
  /\ late' = {}
  /\ aged' \in (IF Aging /\ dur["p"].st = RU THEN BOOLEAN ELSE {FALSE})
  /\ Emit([ev |-> "Crash", snap |-> SnapSeq(dur), reason |-> dreason, base |-> "-", old |-> aged', recovery |-> TRUE])
  /\ UNCHANGED <<sh, dur, dreason, cb, fate>>

\* fixAction on a record
FixAct(r) == IF r.st # RU THEN r
             ELSE IF r.atts = <<>> THEN R0
             ELSE IF LastOf(r) = "ok" THEN [r EXCEPT !.st = CO] ELSE [r EXCEPT !.st = FA]
\* fixSeq: on a Running sequence fix the actions, then decide
FixedActs(m, b, q) == [a \in ActsQ(b, q) |-> FixAct(m[a])]
FixSeqSt(m, b, q) ==
  LET fa == FixedActs(m, b, q)
      nco == Cardinality({a \in ActsQ(b, q) : fa[a].st = CO})
      nfa == Cardinality({a \in ActsQ(b, q) : fa[a].st = FA}) IN
  IF nfa > 0 THEN FA ELSE IF nco = 0 THEN NS ELSE IF nco = NAct(b, q) THEN CO ELSE RU
\* fixBlock part 1 (before it executes the sequences that are still Running)
GroupFailedM(m, sc, g) == Has(sc, g) /\ m[Grp(sc, g)].st = FA
FixSeqsOf(m, b) ==
  [o \in DOMAIN m |->
     IF \E q \in 1..NSeq(b) : o = SeqName(b, q) /\ m[o].st = RU THEN [m[o] EXCEPT !.st = FixSeqSt(m, b, obs.dd[o].s)]
     ELSE IF \E q \in 1..NSeq(b) : o \in ActsQ(b, q) THEN FixAct(m[o])      \* every action, also inside a finished sequence
     ELSE m[o]]
FixBlock1(m, b) ==
  IF m[ScopeName(b)].st # RU THEN FixSeqsOf(m, b)      \* a finished block: only its sequences are repaired (after a second crash)
  ELSE IF Has(b, "bypass") /\ m[Grp(b, "bypass")].st = CO THEN [m EXCEPT ![ScopeName(b)].st = CO]
  ELSE IF GroupFailedM(m, b, "pre") THEN [m EXCEPT ![ScopeName(b)].st = FA]
  ELSE FixSeqsOf(m, b)      \* failed cont / post checks fail the block only after its sequences have been dealt with (FixBlock2)
RECURSIVE FixBlocks(_, _)
FixBlocks(m, b) == IF b > NBk THEN m ELSE FixBlocks(FixBlock1(m, b), b + 1)
\* a block that fixBlock will execute sequences for
NeedsExec(m0, m1, b) == m0[ScopeName(b)].st = RU /\ m1[ScopeName(b)].st = RU /\ \E q \in SeqsB(b) : m1[q].st = RU

\* New process: recover.start/fetch; the plan is resumed only if it is durably Running
NewProcess ==
  /\ ~alive /\ pc = "dead"
  /\ alive' = TRUE
  /\ IF dur["p"].st = RU THEN waiter' = "open" /\ pc' = (IF aged THEN "aged_close" ELSE "fix") ELSE waiter' = "none" /\ pc' = "finished"
  /\ IF dur["p"].st = RU THEN Emit([ev |-> "NewProc", running |-> TRUE])
     ELSE Emit([ev |-> "WaitRet", ok |-> TRUE, snap |-> SnapSeq(dur), reason |-> dreason, infl |-> 0])
  /\ UNCHANGED <<sh, aged, late, mem, dur, mreason, dreason, cb, wk, lim, fails, li, am, rn, cl, ch, runs, crashes, ncall, fate, wq>>
\* fixPlan up to the blocks: plan-level verdicts, then fixBlock on every block (in-memory), then the sequences
\* that are still Running are executed by fixBlock itself (all at once, no limiter, no threshold check)
PlanVerdictEarly(m) ==
  IF Has(0, "bypass") /\ m[Grp(0, "bypass")].st = CO THEN CO
  ELSE IF GroupFailedM(m, 0, "pre") THEN FA
  ELSE IF GroupFailedM(m, 0, "post") THEN FA
  ELSE RU
\* fixChecks: a group that was Running at the crash (an interrupted run) is reset together with its actions
ResetGroups(m, scopes) ==
  [o \in DOMAIN m |->
     IF obs.dd[o].k = "chk" /\ obs.dd[o].b \in scopes /\ m[o].st = RU THEN R0
     ELSE IF obs.dd[o].k = "cact" /\ obs.dd[o].b \in scopes /\ m[Grp(obs.dd[o].b, obs.dd[o].g)].st = RU THEN R0
     ELSE m[o]]
\* Recovery(): a plan found Failed still owes the deferred checks of its failed blocks and its own ("fix_def")
AfterVerdict(st) == IF st = NS THEN "Start" ELSE IF st = CO THEN "End" ELSE IF st = FA THEN "fix_def" ELSE "PlanBypass"
MFix ==
  /\ pc = "fix"
  /\ LET m0 == ResetGroups(mem, {0}) IN
     IF PlanVerdictEarly(m0) # RU
       THEN mem' = [m0 EXCEPT !["p"].st = PlanVerdictEarly(m0)] /\ Goto(AfterVerdict(PlanVerdictEarly(m0))) /\ UNCHANGED wk
       ELSE LET m1 == FixBlocks(ResetGroups(m0, 1..NBk), 1) IN
            /\ mem' = m1
            /\ wk' = [q \in DOMAIN wk |-> IF m1[q].st = RU /\ m1[ScopeName(obs.dd[q].b)].st = RU /\ mem[ScopeName(obs.dd[q].b)].st = RU
                                          THEN [st |-> "w0", k |-> 1] ELSE WK0]
            /\ Goto("fix_wait")
  /\ Silent /\ UNCHANGED <<dur, mreason, dreason, cb, lim, fails, li, am, rn, cl, ch, runs, waiter, wq>> /\ UNCH_M
\* after the executed sequences: a block with nothing Completed and nothing Failed goes back to NotStarted; then the plan
FixBlock2(m, b) ==
  IF m[ScopeName(b)].st # RU THEN m[ScopeName(b)].st
  ELSE IF GroupFailedM(m, b, "cont") \/ GroupFailedM(m, b, "post") THEN FA
  ELSE IF (\A q \in SeqsB(b) : m[q].st # FA) /\ (\A q \in SeqsB(b) : m[q].st # CO \/ wk[q].st = "gone") THEN NS ELSE RU
MFixWait ==
  /\ pc = "fix_wait" /\ WorkersQuiet
  /\ LET m2 == [o \in DOMAIN mem |-> IF \E b \in 1..NBk : o = ScopeName(b) THEN [mem[o] EXCEPT !.st = FixBlock2(mem, obs.dd[o].b)] ELSE mem[o]]
         nfa == Cardinality({b \in 1..NBk : m2[ScopeName(b)].st = FA})
         nco == Cardinality({b \in 1..NBk : m2[ScopeName(b)].st = CO})
         nru == Cardinality({b \in 1..NBk : m2[ScopeName(b)].st = RU})
         pst == IF nfa > 0 THEN FA
                ELSE IF nco = 0 /\ nru = 0 THEN NS
                ELSE IF nco = NBk /\ (~Has(0, "post") \/ m2[Grp(0, "post")].st = CO) /\ (~Has(0, "deferred") \/ m2[Grp(0, "deferred")].st = CO) THEN CO
                ELSE IF GroupFailedM(m2, 0, "cont") THEN FA ELSE RU IN
       /\ mem' = [m2 EXCEPT !["p"].st = pst]
       /\ wk' = [q \in DOMAIN wk |-> WK0]
       /\ Goto(AfterVerdict(pst))
       /\ cb' = 1
  /\ Silent /\ UNCHANGED <<dur, mreason, dreason, lim, fails, li, am, rn, cl, ch, runs, waiter, wq>> /\ UNCH_M
\* the deferred checks of failed blocks that have not run yet, in block order; then PlanDeferredChecks
OwesDeferred(b) == mem[ScopeName(b)].st = FA /\ Has(b, "deferred") /\ mem[Grp(b, "deferred")].st \notin {CO, FA}
\* a block still Running under a plan found Failed (the plan's cont checks had failed) fails with it
MFixFailBlocks ==
  /\ pc = "fix_def" /\ \E b \in 1..NBk : mem[ScopeName(b)].st = RU
  /\ mem' = [o \in DOMAIN mem |-> IF obs.dd[o].k = "blk" /\ mem[o].st = RU THEN [mem[o] EXCEPT !.st = FA] ELSE mem[o]]
  /\ Silent /\ UNCHANGED <<pc, dur, mreason, dreason, cb, wk, lim, fails, li, am, rn, cl, ch, runs, waiter, wq>> /\ UNCH_M
MFixDef ==
  /\ pc = "fix_def" /\ \A b \in 1..NBk : mem[ScopeName(b)].st # RU
  /\ IF \E b \in 1..NBk : OwesDeferred(b)
       THEN LET b == CHOOSE x \in 1..NBk : OwesDeferred(x) /\ \A y \in 1..NBk : OwesDeferred(y) => x <= y IN
            StartRuns({Grp(b, "deferred")}) /\ Goto("fix_def_j") /\ cb' = b
       ELSE UNCHANGED <<rn, cb>> /\ Goto("PlanDeferred")
  /\ Silent /\ UNCHANGED <<mem, dur, mreason, dreason, wk, lim, fails, li, am, cl, ch, runs, waiter, wq>> /\ UNCH_M
MFixDefJ ==
  /\ pc = "fix_def_j" /\ Joined({Grp(cb, "deferred")})
  /\ ClearRuns({Grp(cb, "deferred")}) /\ Goto("fix_def")
  /\ Silent /\ UNCH_MR /\ UNCH_M

(* recover.filterPlans / agedOut (internal/execute/recovery.go): a Running plan whose newest time stamp is older than  *)
(* the maximum is not resumed: the plan becomes Failed with reason ExceedRecovery, every object still Running becomes *)
(* Failed (runningToFailed), and everything is written in walk order (writeAll; the plan first).  No plugin runs.     *)
MAgedClose ==
  /\ pc = "aged_close"
  /\ mem' = [o \in DOMAIN mem |-> IF mem[o].st = RU THEN [mem[o] EXCEPT !.st = FA] ELSE mem[o]]
  /\ mreason' = "FRExceedRecovery"
  /\ wq' = WalkOrder /\ Goto("aged_write") /\ Silent
  /\ UNCHANGED <<dur, dreason, cb, wk, lim, fails, li, am, rn, cl, ch, runs, waiter>> /\ UNCH_M
MAgedWrite ==
  /\ pc = "aged_write"
  /\ LET q == SkipClean(wq) IN
     IF q = <<>> THEN /\ Goto("Release") /\ wq' = <<>> /\ UNCHANGED <<dur, dreason>> /\ Silent
     ELSE /\ Write(Head(q)) /\ dreason' = IF Head(q) = "p" THEN mreason ELSE dreason
          /\ Emit(EvW(Head(q))) /\ wq' = Tail(q) /\ UNCHANGED pc
  /\ UNCHANGED <<mem, mreason, cb, wk, lim, fails, li, am, rn, cl, ch, runs, waiter>> /\ UNCH_M

(* ------------------------------------------------------------------ *)
(* a polling reader (Workstream.Status / Plan): at any time it reads  *)
(* the stored record of some object whose stored record differs from  *)
(* what it saw last (obs.rseen is not kept: the event carries what is *)
(* stored; Props!C08_Monotone judges the sequence of readings)        *)
(* ------------------------------------------------------------------ *)
Poll(o) ==
  /\ Poller /\ alive /\ pc \notin {"idle", "finished"}
  /\ obs.dd[o].k \in {"blk", "seq", "act"}
  /\ Terminal(dur[o].st) /\ obs.rterm[o] = "none"      \* the first time the reader sees o terminal (later readings are checked against it)
  /\ Emit([ev |-> "R", obj |-> o, st |-> dur[o].st, natt |-> Len(dur[o].atts)])
  /\ UNCHANGED evars
\* ... and any later reading of an object it has seen terminal
PollAgain(o) ==
  /\ Poller /\ alive /\ pc \notin {"idle", "finished"}
  /\ obs.dd[o].k \in {"blk", "seq", "act"} /\ obs.rterm[o] # "none" /\ dur[o].st # obs.rterm[o]
  /\ Emit([ev |-> "R", obj |-> o, st |-> dur[o].st, natt |-> Len(dur[o].atts)])
  /\ UNCHANGED evars

(* ------------------------------------------------------------------ *)
Internal == MainStep \/ MFix \/ MFixWait \/ MFixFailBlocks \/ MFixDef \/ MFixDefJ \/ MAgedClose \/ MAgedWrite
            \/ (\E q \in DOMAIN wk : WorkerStep(q))
            \/ (\E g \in DOMAIN rn : RunStep(g))
            \/ (\E sc \in DOMAIN cl : ContStep(sc))
            \/ (\E a \in DOMAIN am : AStart(a) \/ AExec(a) \/ ATimeout(a) \/ AWAtt(a) \/ AEnd(a))
PluginReturn == \E a \in DOMAIN am : \E out \in (IF KindOf(a) = "act" THEN SeqOutcomes ELSE ChkOutcomes) : APEnd(a, out)
Done == pc = "finished" /\ UNCHANGED vars
Next == (alive /\ (Internal \/ PluginReturn)) \/ (~alive /\ NewProcess) \/ Crash \/ Done \/ LateReturn
        \/ (\E o \in DOMAIN dur : Poll(o) \/ PollAgain(o))
Spec == Init /\ [][Next]_vars
FairSpec == Spec /\ WF_vars(Internal \/ PluginReturn \/ NewProcess)

(* ------------------------------------------------------------------ *)
(* scenario generation (model -> code): behaviours in which a plugin  *)
(* returns only when the engine cannot take a step by itself.  That   *)
(* is exactly what a harness can force that gates nothing but plugin  *)
(* returns ("let the engine run until it blocks, then choose"), so    *)
(* every generated behaviour is realisable on the real engine.        *)
(* ------------------------------------------------------------------ *)
GenNext == (alive /\ (Internal \/ (~ENABLED Internal /\ PluginReturn))) \/ (~alive /\ NewProcess) \/ Crash
GenSpec == Init /\ [][GenNext]_vars
Compact(e) == CASE e.ev = "PStart" -> [e |-> "S", o |-> e.obj, n |-> e.n, out |-> "-", st |-> "-", natt |-> 0]
                [] e.ev = "PEnd" -> [e |-> "E", o |-> e.obj, n |-> e.n, out |-> e.out, st |-> "-", natt |-> 0]
                [] e.ev = "W" -> [e |-> "W", o |-> e.obj, n |-> 0, out |-> "-", st |-> e.st, natt |-> e.natt]
                [] OTHER -> [e |-> "-", o |-> "-", n |-> 0, out |-> "-", st |-> "-", natt |-> 0]
ScnOf == [shape |-> sh,
          evs |-> SelectSeq([i \in 1..Len(hist) |-> Compact(hist[i])], LAMBDA x : x.e # "-"),
          final |-> [o \in DOMAIN dur |-> [st |-> dur[o].st, natt |-> Len(dur[o].atts)]],
          reason |-> dreason]
EmitScn == (Gen = "full" /\ pc = "finished") => PrintT("SCN " \o ToJson(ScnOf))

(* ------------------------------------------------------------------ *)
(* properties                                                         *)
(* ------------------------------------------------------------------ *)
NoClauseViolated == bad = {}
\* design-level invariants stated directly on the engine state (cross-check of the clause machinery)
InvLimiter == Cardinality({q \in DOMAIN wk : wk[q].st \in {"w0", "act", "wait", "rel"}}) <= IF pc = "fix_wait" THEN 99 ELSE Conc(IF cb > NBk THEN NBk ELSE cb)
InvQuiescentAtRelease == (waiter = "closed" /\ crashes = 0) => (\A a \in DOMAIN am : am[a] # "incall") /\ (\A o \in DOMAIN dur : dur[o].st # RU)
InvDurLagsMem == \A a \in DOMAIN am : am[a] = "incall" => dur[a].st = RU
Terminates == <>(pc = "finished")
=============================================================================
