------------------------------ MODULE Builder ------------------------------
(***************************************************************************)
(* C20.  workflow/builder.BuildPlan as a sequential state machine.         *)
(*                                                                         *)
(* State: the cursor (chain), the tree built so far (objects are labelled  *)
(* with the index of the call that created them), the sticky error, the    *)
(* emitted flag.  One action per public method and argument class.  Every  *)
(* step appends to hist what an observer of the real builder must see      *)
(* after that call: whether Err() is nil, which earlier call raised the    *)
(* error Err() returns (sticky identity), whether Plan() returned a plan   *)
(* and, if so, the tree it must be equal to.                               *)
(*                                                                         *)
(* TLC is used as a test generator (the harness replays every printed      *)
(* history on the real builder and compares after every call):             *)
(*   BuilderSeq.cfg   every call sequence up to MaxLen                     *)
(*   BuilderCover.cfg a transition cover of the abstract state graph       *)
(*                    (VIEW without the history, one history per           *)
(*                    (abstract state, call) pair)                         *)
(*   -simulate        long random histories                                *)
(***************************************************************************)
EXTENDS Naturals, Sequences, FiniteSets, TLC, Json

CONSTANTS MaxLen,      \* longest history
          MaxKids      \* bound on children per container (keeps the cover finite)

Types == {"pre", "cont", "post", "bypass", "deferred"}

(* call classes: <<method, argument class>> *)
Calls == { <<"Checks", "pre">>, <<"Checks", "deferred">>, <<"Checks", "cont">>, <<"Checks", "unknown">>,
           <<"Checks", "pre+1">>, <<"Checks", "nil">>, <<"Checks", "nilact">>,
           <<"Block", "ok">>, <<"Block", "noname">>, <<"Block", "nodescr">>,
           <<"Seq", "ok">>, <<"Seq", "ok+1">>, <<"Seq", "nil">>, <<"Seq", "noname">>, <<"Seq", "nodescr">>,
           <<"Action", "ok">>, <<"Action", "nil">>, <<"Action", "noname">>, <<"Action", "nodescr">>, <<"Action", "noplugin">>,
           <<"Up", "-">>, <<"Plan", "-">>, <<"Reset", "ok">>, <<"Reset", "bad">> }

VARIABLES chain,    \* cursor: sequence of levels, each [lvl, t, b, s]
          pchk,     \* [Types -> Seq(label)]  actions of the plan's check groups
          pset,     \* set of types present on the plan
          blocks,   \* Seq([name, cset, cacts, seqs]) ; seqs : Seq([name, acts])
          err,      \* 0 = none, n = the error raised by the n-th call
          emitted,
          hist
vars == <<chain, pchk, pset, blocks, err, emitted, hist>>

NoChk == [t \in Types |-> <<>>]
Root == [lvl |-> "plan", t |-> "-", b |-> 0, s |-> 0]
Init == /\ chain = <<Root>> /\ pchk = NoChk /\ pset = {} /\ blocks = <<>>
        /\ err = 0 /\ emitted = FALSE /\ hist = <<>>

N == Len(hist) + 1
Cur == chain[Len(chain)]
Tree == [pset |-> pset, pchk |-> pchk, blocks |-> blocks]

ChkType(a) == IF a \in {"pre", "pre+1", "nil", "nilact"} THEN "pre" ELSE a
ChkActs(a) == IF a = "pre+1" THEN <<N>> ELSE <<>>

Rec(c, planOK) == [call |-> c[1], arg |-> c[2], errAt |-> err', planReturned |-> planOK, emitted |-> emitted',
                   tree |-> IF planOK THEN <<Tree>> ELSE <<>>]

Fail == /\ err' = N /\ UNCHANGED <<chain, pchk, pset, blocks, emitted>>
Same == UNCHANGED <<chain, pchk, pset, blocks, err, emitted>>

(* a structural call in a builder that is neither emitted nor in error *)
DoChecks(a) ==
    IF a \in {"nil", "nilact", "unknown"} THEN Fail
    ELSE LET t == ChkType(a) IN
      IF chain = <<>> THEN Fail
      ELSE IF Cur.lvl = "plan" THEN
             IF t \in pset THEN Fail
             ELSE /\ pset' = pset \cup {t} /\ pchk' = [pchk EXCEPT ![t] = ChkActs(a)]
                  /\ chain' = Append(chain, [lvl |-> "pchk", t |-> t, b |-> 0, s |-> 0])
                  /\ UNCHANGED <<blocks, err, emitted>>
      ELSE IF Cur.lvl = "block" THEN
             LET b == Cur.b IN
             IF t \in blocks[b].cset THEN Fail
             ELSE /\ blocks' = [blocks EXCEPT ![b].cset = @ \cup {t}, ![b].cacts[t] = ChkActs(a)]
                  /\ chain' = Append(chain, [lvl |-> "bchk", t |-> t, b |-> b, s |-> 0])
                  /\ UNCHANGED <<pchk, pset, err, emitted>>
      ELSE Fail
DoBlock(a) ==
    IF a # "ok" \/ chain = <<>> THEN Fail
    ELSE IF Cur.lvl = "plan" THEN
           /\ blocks' = Append(blocks, [name |-> N, cset |-> {}, cacts |-> NoChk, seqs |-> <<>>])
           /\ chain' = Append(chain, [lvl |-> "block", t |-> "-", b |-> Len(blocks) + 1, s |-> 0])
           /\ UNCHANGED <<pchk, pset, err, emitted>>
    ELSE Fail
DoSeq(a) ==
    IF a \notin {"ok", "ok+1"} \/ chain = <<>> THEN Fail
    ELSE IF Cur.lvl = "block" THEN
           LET b == Cur.b IN
           /\ blocks' = [blocks EXCEPT ![b].seqs = Append(@, [name |-> N, acts |-> IF a = "ok+1" THEN <<N>> ELSE <<>>])]
           /\ chain' = Append(chain, [lvl |-> "seq", t |-> "-", b |-> b, s |-> Len(blocks[b].seqs) + 1])
           /\ UNCHANGED <<pchk, pset, err, emitted>>
    ELSE Fail
DoAction(a) ==
    IF a # "ok" \/ chain = <<>> THEN Fail
    ELSE CASE Cur.lvl = "seq" -> /\ blocks' = [blocks EXCEPT ![Cur.b].seqs[Cur.s].acts = Append(@, N)]
                                 /\ UNCHANGED <<chain, pchk, pset, err, emitted>>
           [] Cur.lvl = "pchk" -> /\ pchk' = [pchk EXCEPT ![Cur.t] = Append(@, N)]
                                  /\ UNCHANGED <<chain, pset, blocks, err, emitted>>
           [] Cur.lvl = "bchk" -> /\ blocks' = [blocks EXCEPT ![Cur.b].cacts[Cur.t] = Append(@, N)]
                                  /\ UNCHANGED <<chain, pchk, pset, err, emitted>>
           [] OTHER -> Fail
DoUp == IF Len(chain) >= 2 THEN chain' = SubSeq(chain, 1, Len(chain) - 1) /\ UNCHANGED <<pchk, pset, blocks, err, emitted>>
        ELSE Fail

Do(c) ==
  /\ Len(hist) < MaxLen
  /\ CASE c = <<"Reset", "ok">> ->
            /\ chain' = <<Root>> /\ pchk' = NoChk /\ pset' = {} /\ blocks' = <<>> /\ err' = 0 /\ emitted' = FALSE
            /\ hist' = Append(hist, Rec(c, FALSE))
       [] c = <<"Reset", "bad">> ->     \* a failed Reset empties the builder and is itself a sticky misuse
            /\ chain' = <<>> /\ pchk' = NoChk /\ pset' = {} /\ blocks' = <<>> /\ err' = N /\ emitted' = FALSE
            /\ hist' = Append(hist, Rec(c, FALSE))
       [] c[1] = "Plan" ->
            IF emitted \/ err # 0 THEN Same /\ hist' = Append(hist, Rec(c, FALSE))
            ELSE /\ emitted' = TRUE /\ UNCHANGED <<chain, pchk, pset, blocks, err>> /\ hist' = Append(hist, Rec(c, TRUE))
       [] OTHER ->
            /\ IF emitted THEN Fail                 \* use after emission: a (new) error, nothing changes
               ELSE IF err # 0 THEN Same            \* sticky first error: no-op
               ELSE CASE c[1] = "Checks" -> DoChecks(c[2])
                      [] c[1] = "Block" -> DoBlock(c[2])
                      [] c[1] = "Seq" -> DoSeq(c[2])
                      [] c[1] = "Action" -> DoAction(c[2])
                      [] c[1] = "Up" -> DoUp
            /\ hist' = Append(hist, Rec(c, FALSE))

Next == \E c \in Calls : Do(c)
Spec == Init /\ [][Next]_vars

(* ---- bounds for the cover ---- *)
Small == /\ Len(blocks) <= MaxKids
         /\ \A t \in Types : Len(pchk[t]) <= MaxKids
         /\ \A b \in 1..Len(blocks) : /\ Len(blocks[b].seqs) <= MaxKids
                                      /\ \A t \in Types : Len(blocks[b].cacts[t]) <= MaxKids
                                      /\ \A s \in 1..Len(blocks[b].seqs) : Len(blocks[b].seqs[s].acts) <= MaxKids

(* ---- model-level properties of the design (checked by TLC on the model itself) ---- *)
TypeOK == err \in 0..MaxLen /\ emitted \in BOOLEAN /\ Len(hist) <= MaxLen
\* the error, once set before emission, is never replaced until a Reset
Sticky == [][(err # 0 /\ ~emitted /\ emitted' = emitted /\ hist' # hist /\ hist'[Len(hist')].call # "Reset") => err' = err]_vars
\* nothing is added to the tree by a call that reports an error
NoSilentChange == [][(hist' # hist /\ err' # 0 /\ hist'[Len(hist')].call # "Reset") => (pchk' = pchk /\ pset' = pset /\ blocks' = blocks)]_vars
\* a plan is only ever returned by the first Plan() of an error-free builder
PlanOnlyOnce == [][(hist' # hist /\ hist'[Len(hist')].planReturned) => (~emitted /\ err = 0)]_vars

(* ---- generators ---- *)
EmitAtEnd == (Len(hist) = MaxLen) => PrintT("CASE " \o ToJson(hist))
EmitTransition == (hist' # hist) => PrintT("CASE " \o ToJson(hist'))
Shape == [pset |-> pset, p |-> [t \in Types |-> Len(pchk[t])],
          b |-> [i \in 1..Len(blocks) |-> [cset |-> blocks[i].cset, c |-> [t \in Types |-> Len(blocks[i].cacts[t])],
                                            s |-> [j \in 1..Len(blocks[i].seqs) |-> Len(blocks[i].seqs[j].acts)]]]]
CurShape == [i \in 1..Len(chain) |-> chain[i]]
CoverView == <<CurShape, Shape, err # 0, emitted>>
=============================================================================
