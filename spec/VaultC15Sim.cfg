SPECIFICATION Spec
CONSTANTS
  Ids = {"p1","p2","p3","p4","p5"}
  CIds = {"p1","p2","p3","p4"}
  ShapeNames = {"S1","S2"}
  Ops = {"Create","Delete","UpdatePlan","Exists","Search","SearchNone","List"}
  Groups = {0,1,2}
  InitVers = {0,1,2,3}
  MaxVer = 4
  MaxLen = 30
  MaxUpd = 99
  Sim = TRUE
  FMax = 6
INVARIANTS TypeOK TimesDistinct RunningFound ListSound EmitAtEnd
CHECK_DEADLOCK FALSE
