------------------------------- MODULE Props -------------------------------
(***************************************************************************)
(* The properties C01..C12 of element-of-surprise/coercion, written once,  *)
(* as named clauses over an OBSERVATION STATE that is a deterministic      *)
(* function of the observable event history of one plan:                   *)
(*                                                                         *)
(*   Config    shape of the plan (object descriptors, per-block settings)  *)
(*   StartCall / StartRet(ok)                                              *)
(*   PStart(obj,n,ov) / PEnd(obj,n,out) / PCtxDone   plugin entry / exit   *)
(*   W(obj,k,st,natt,last,...)   durable write, logged after it returned   *)
(*   R(obj,st,natt)   what a polling reader saw                            *)
(*   WaitRet(snap,reason,infl) / Read(snap,reason)   API returns           *)
(*   Crash(snap,...) / NewProc    store contents at a crash point, restart *)
(*   Hang / HoldTimeout / End                                              *)
(*                                                                         *)
(* Observe(s,e) folds an event into the state; Holds(c,s,e) says whether   *)
(* clause c holds when e is applied in s.  EngineTrace.tla drives both     *)
(* from traces recorded on the real engine; EngineMC*.tla drive them from  *)
(* the steps of Engine.tla.  Clause names start with the property id.      *)
(***************************************************************************)
EXTENDS Naturals, Integers, Sequences, FiniteSets, SequencesExt, TLC

NS == "NotStarted"  RU == "Running"  CO == "Completed"  FA == "Failed"
Terminal(st) == st \in {CO, FA}

ScopeName(b) == IF b = 0 THEN "p" ELSE "b" \o ToString(b)
Grp(b, g) == ScopeName(b) \o "." \o g
SeqName(b, q) == "b" \o ToString(b) \o ".s" \o ToString(q)
ActName(b, q, a) == SeqName(b, q) \o ".a" \o ToString(a)
CheckGroups == {"pre", "cont", "post", "deferred"}

(* ---- shape helpers over an observation state s ---- *)
Names(s) == DOMAIN s.dd
D(s, o) == s.dd[o]
HasGroup(s, b, g) == Grp(b, g) \in Names(s)
NB(s) == Len(s.cfg.blocks)
BlockCfg(s, b) == s.cfg.blocks[b]
SeqsOf(s, b) == {o \in Names(s) : s.dd[o].k = "seq" /\ s.dd[o].b = b}
ActsOfSeq(s, b, q) == {o \in Names(s) : s.dd[o].k = "act" /\ s.dd[o].b = b /\ s.dd[o].s = q}
GroupNames(s) == {o \in Names(s) : s.dd[o].k = "chk"}
GroupOfAct(d) == Grp(d.b, d.g)
Retries(s, d) == IF d.k = "act" THEN s.cfg.retries ELSE s.cfg.cretries
InScope(d, sc) == sc = 0 \/ d.b = sc
Infl(s) == {o \in Names(s) : s.inflN[o] > 0}
InflSeqs(s, b) == {s.dd[o].s : o \in {x \in Infl(s) : s.dd[x].k = "act" /\ s.dd[x].b = b}}
\* failed sequences of block b: written Failed, or (after a restart) in flight at the crash with an action whose
\* last durable attempt failed - recovery declares those Failed in memory before anything is written again
FailedAtCrash(s, q) ==
    /\ s.crashed /\ s.cdur[q].st = RU
    /\ \E a \in ActsOfSeq(s, D(s, q).b, D(s, q).s) :
          \/ s.cdur[a].st = FA
          \/ s.cdur[a].st = RU /\ s.cdur[a].natt >= 1 /\ s.cdur[a].last # "ok"
FailedSeqs(s, b) == Cardinality({o \in SeqsOf(s, b) : s.dur[o].st = FA \/ FailedAtCrash(s, o)})
RunCalls(s, o) == s.tot[o] - s.rb[o]
BypassedScope(s, sc) == HasGroup(s, sc, "bypass") /\ s.grpRes[Grp(sc, "bypass")] = "ok"
\* a check group failed: observed at the plugin in this process lifetime, or durably Failed at the crash
\* (a group that is run again after the restart is judged by that run)
GroupFailed(s, b, g) == HasGroup(s, b, g) /\ (s.grpFail[Grp(b, g)] \/ (s.crashed /\ s.cdur[Grp(b, g)].st = FA))
BlockChecksFailed(s, b) == \E g \in CheckGroups : GroupFailed(s, b, g)
PlanGroupFailed(s, g) == GroupFailed(s, 0, g)
Live(s) == ~s.crashed          \* first process lifetime of the plan (C01..C07 are stated for it)
Running(s) == Live(s) /\ s.waited = <<>> /\ ~s.frozen
Resumed(s) == s.crashed /\ s.wasRunning /\ s.rec /\ ~s.old   \* a plan the new process must resume
Executing(s) == Running(s) \/ (Resumed(s) /\ s.waited = <<>> /\ ~s.frozen)   \* also a resumed plan before its final write

Letter(out) == CASE out = "ok" -> "o" [] out = "tr" -> "t" [] out = "perm" -> "p"
                 [] out \in {"wrongtype", "wrongtr"} -> "w" [] out \in {"overrun", "lateok"} -> "x" [] OTHER -> "?"
DigStr(q) == IF q = <<>> THEN "-" ELSE FoldLeft(LAMBDA acc, x : acc \o x, "", q)

SnapOf(sn) == [o \in {x.obj : x \in ToSet(sn)} |-> CHOOSE x \in ToSet(sn) : x.obj = o]

(***************************************************************************)
(* Initial observation state for a Config line c.                          *)
(***************************************************************************)
InitObs(c) ==
  LET N == {d.obj : d \in ToSet(c.objs)}
      G == {d.obj : d \in {x \in ToSet(c.objs) : x.k = "chk"}} IN
  [ cfg |-> c,
    dd |-> [o \in N |-> CHOOSE d \in ToSet(c.objs) : d.obj = o],
    dur |-> [o \in N |-> [st |-> NS, natt |-> 0, last |-> "none"]],
    inflN |-> [o \in N |-> 0],
    tot |-> [o \in N |-> 0],          \* PStarts of o in this process lifetime
    rb |-> [o \in N |-> 0],           \* value of tot at the start of the current run of o
    ends |-> [o \in N |-> 0],         \* PEnds of o in the current run
    lastOut |-> [o \in N |-> "none"], \* outcome of the latest PEnd of the current run
    outs |-> [o \in N |-> <<>>],      \* outcome letters of the current run, by call
    lastTag |-> [o \in N |-> ""],
    grpOpen |-> [g \in G |-> FALSE], grpRuns |-> [g \in G |-> 0],
    grpRes |-> [g \in G |-> "none"], grpFirst |-> [g \in G |-> "none"], grpFail |-> [g \in G |-> FALSE],
    seqRuns |-> [o \in {x \in N : \E d \in ToSet(c.objs) : d.obj = x /\ d.k = "seq"} |-> 0],
    seqStarted |-> {}, invoked |-> {}, defStarted |-> {}, entered |-> {},
    termW |-> {},                      \* objects written terminal in this lifetime
    frozen |-> FALSE, waited |-> <<>>, wreason |-> "-",
    crashed |-> FALSE, cdur |-> <<>>, base |-> "-", wasRunning |-> FALSE,
    old |-> FALSE, rec |-> TRUE, csnap |-> <<>>, creason |-> "-",
    rterm |-> [o \in N |-> "none"],
    wfailed |-> FALSE,                 \* a durable write of this process lifetime has failed (injected)
    startOk |-> 0, startOpen |-> 0, startAfterOk |-> 0 ]

EmptyObs == [cfg |-> [objs |-> <<>>, blocks |-> <<>>, retries |-> 0, cretries |-> 0, mode |-> "none", fn |-> FALSE, tag |-> ""],
             dd |-> <<>>]

(***************************************************************************)
(* Clauses.  Each is TRUE when it holds for event e applied in state s.    *)
(***************************************************************************)
IsP(e) == e.ev = "PStart"
IsW(e) == e.ev = "W"
Changes(s, e) == s.dur[e.obj].st # e.st \/ s.dur[e.obj].natt # e.natt   \* W that changes the durable record

(* ---------------- C01: declared order ---------------- *)
\* (the gate on the previous blocks also holds in a process that resumes the plan: durable statuses survive)
C01_BlockOrder(s, e) == (IsP(e) /\ (Running(s) \/ Resumed(s)) /\ D(s, e.obj).b >= 1) =>
    /\ \A i \in 1..(D(s, e.obj).b - 1) : s.dur[ScopeName(i)].st = CO
    /\ Running(s) => \A x \in Infl(s) : D(s, x).b \in {0, D(s, e.obj).b}
\* (also in a process that resumes the plan: there the previous action may have succeeded before the crash)
C01_ActionOrder(s, e) == (IsP(e) /\ (Running(s) \/ Resumed(s)) /\ D(s, e.obj).k = "act") =>
    LET d == D(s, e.obj)
        prev == ActName(d.b, d.s, d.a - 1) IN
    /\ d.a > 1 => \/ s.lastOut[prev] = "ok"
                  \/ s.crashed /\ s.lastOut[prev] = "none" /\ (s.cdur[prev].st = CO \/ s.cdur[prev].last = "ok")
    /\ \A x \in Infl(s) : ~(D(s, x).k = "act" /\ D(s, x).b = d.b /\ D(s, x).s = d.s /\ x # e.obj)
    /\ s.inflN[e.obj] = 0
C01_PreGate(s, e) == (IsP(e) /\ Running(s) /\ D(s, e.obj).k = "act") =>
    /\ HasGroup(s, 0, "pre") => s.grpRes[Grp(0, "pre")] = "ok"
    /\ HasGroup(s, D(s, e.obj).b, "pre") => s.grpRes[Grp(D(s, e.obj).b, "pre")] = "ok"
C01_PostAfterSeqs(s, e) == (IsP(e) /\ Running(s) /\ D(s, e.obj).k = "cact" /\ D(s, e.obj).g = "post") =>
    LET sc == D(s, e.obj).b IN
    /\ \A x \in Infl(s) : ~(D(s, x).k = "act" /\ InScope(D(s, x), sc))
    /\ \A q \in s.seqStarted : InScope(D(s, q), sc) => Terminal(s.dur[q].st)
AllowedWithDeferred(x, sc) == x.k = "cact" /\ ((x.g = "deferred" /\ x.b = sc) \/ x.g = "cont")
C01_DeferredLast(s, e) == (IsP(e) /\ Running(s)) =>
    LET d == D(s, e.obj) IN
    /\ (d.k = "cact" /\ d.g = "deferred") =>
          /\ \A x \in Infl(s) : InScope(D(s, x), d.b) => AllowedWithDeferred(D(s, x), d.b)
          /\ \A q \in s.seqStarted : InScope(D(s, q), d.b) => Terminal(s.dur[q].st)
    /\ \A sc \in s.defStarted : InScope(d, sc) => AllowedWithDeferred(d, sc)

(* ---------------- C02: concurrency bound ---------------- *)
\* (also in a process that resumes the plan: at most Concurrency sequences were in progress at the crash)
C02_Bound(s, e) == (IsP(e) /\ Executing(s) /\ D(s, e.obj).k = "act") =>
    Cardinality(InflSeqs(s, D(s, e.obj).b) \cup {D(s, e.obj).s}) <= BlockCfg(s, D(s, e.obj).b).conc
C02_OneBlock(s, e) == (IsP(e) /\ Executing(s) /\ D(s, e.obj).k = "act") =>
    \A x \in Infl(s) : D(s, x).k = "act" => D(s, x).b = D(s, e.obj).b

(* ---------------- C03: tolerated failures ---------------- *)
C03_Bound(s, e) == (IsW(e) /\ Running(s) /\ D(s, e.obj).k = "seq" /\ e.st = FA) =>
    LET b == D(s, e.obj).b  t == BlockCfg(s, b).tol IN
    t >= 0 => Cardinality({o \in SeqsOf(s, b) : s.dur[o].st = FA} \cup {e.obj}) <= t + BlockCfg(s, b).conc
C03_StopExact(s, e) == (IsW(e) /\ Running(s) /\ D(s, e.obj).k = "seq" /\ e.st = RU) =>
    LET b == D(s, e.obj).b  t == BlockCfg(s, b).tol IN
    (t >= 0 /\ BlockCfg(s, b).conc = 1) => FailedSeqs(s, b) <= t
C03_BlockVerdict(s, e) == (IsW(e) /\ Executing(s) /\ D(s, e.obj).k = "blk" /\ Terminal(e.st) /\ Changes(s, e)) =>
    LET b == D(s, e.obj).b  t == BlockCfg(s, b).tol  exceeded == t >= 0 /\ FailedSeqs(s, b) > t IN
    /\ e.st = FA => (exceeded \/ BlockChecksFailed(s, b) \/ PlanGroupFailed(s, "cont"))
    /\ e.st = CO => (~exceeded /\ ~BlockChecksFailed(s, b))
    /\ (e.st = CO /\ Live(s) /\ ~BypassedScope(s, b)) => \A q \in SeqsOf(s, b) : Terminal(s.dur[q].st)
C03_AfterFailedBlock(s, e) ==
    /\ (IsP(e) /\ (Running(s) \/ Resumed(s)) /\ D(s, e.obj).b >= 1) => \A i \in 1..(D(s, e.obj).b - 1) : s.dur[ScopeName(i)].st # FA
    /\ (e.ev = "WaitRet" /\ Live(s)) =>
          ((\E x \in ToSet(e.snap) : D(s, x.obj).k = "blk" /\ x.st = FA) => SnapOf(e.snap)["p"].st = FA)

(* ---------------- C04: what Wait returns ---------------- *)
\* (a process that dies while the plan executes never lets Wait return either)
C04_WaitReturns(s, e) == ((e.ev = "Hang" \/ (e.ev = "ProcDied" /\ s.waited = <<>>)) /\ Live(s)) => FALSE
C04_Terminal(s, e) == (e.ev = "WaitRet" /\ Live(s)) => (e.ok /\ Terminal(SnapOf(e.snap)["p"].st))
C04_NothingRunning(s, e) == (e.ev = "WaitRet" /\ Live(s)) => \A x \in ToSet(e.snap) : x.st # RU
C04_Quiescent(s, e) ==
    /\ (e.ev = "WaitRet" /\ Live(s)) => (Infl(s) = {} /\ e.infl = 0)
    /\ (Live(s) /\ s.waited # <<>> /\ e.ev \in {"W", "PStart"}) => FALSE
    /\ (Live(s) /\ s.waited # <<>> /\ e.ev = "PEnd") => e.out \in {"overrun", "lateok"}
C04_Stable(s, e) == (e.ev = "Read" /\ Live(s) /\ s.waited # <<>>) => (e.snap = s.waited /\ e.reason = s.wreason)
SeqConsistent(s, sn, q) ==
    LET d == D(s, q)  n == d.n
        st(a) == sn[ActName(d.b, d.s, a)].st IN
    /\ sn[q].st = CO => \A a \in 1..n : st(a) = CO
    /\ sn[q].st = FA => \E f \in 1..n : /\ st(f) = FA
                                        /\ \A a \in 1..(f - 1) : st(a) = CO
                                        /\ \A a \in (f + 1)..n : st(a) = NS /\ sn[ActName(d.b, d.s, a)].natt = 0
ActConsistent(x) ==
    /\ x.st = CO => (x.natt >= 1 /\ x.last = "ok")
    /\ x.st = FA => x.last # "ok"
    /\ (Terminal(x.st) /\ x.natt >= 1) => ((x.st = CO) <=> (x.last = "ok"))
    /\ x.aok
TimesConsistent(x) ==
    /\ (x.s # 0 /\ x.e # 0) => x.s <= x.e
    /\ Terminal(x.st) => (x.s # 0 /\ x.e # 0)
SnapConsistent(s, snap) ==
    LET sn == SnapOf(snap) IN
    /\ sn["p"].st = CO =>
          \/ (HasGroup(s, 0, "bypass") /\ sn[Grp(0, "bypass")].st = CO)
          \/ /\ \A b \in 1..NB(s) : sn[ScopeName(b)].st = CO
             /\ \A g \in CheckGroups : HasGroup(s, 0, g) => sn[Grp(0, g)].st # FA
    /\ \A o \in DOMAIN sn :
          /\ D(s, o).k = "seq" => SeqConsistent(s, sn, o)
          /\ D(s, o).k \in {"act", "cact"} => ActConsistent(sn[o])
C04_Consistent(s, e) == (e.ev = "WaitRet" /\ Live(s)) => SnapConsistent(s, e.snap)
C04_Times(s, e) == (e.ev = "WaitRet" /\ Live(s)) => \A x \in ToSet(e.snap) : TimesConsistent(x)
ReasonTruthful(s, st, r) ==
    /\ (st = CO) <=> (r = "FRUnknown")
    /\ r = "FRPreCheck" => PlanGroupFailed(s, "pre")
    /\ r = "FRContCheck" => PlanGroupFailed(s, "cont")
    /\ r = "FRPostCheck" => PlanGroupFailed(s, "post")
    /\ r = "FRDeferredCheck" => PlanGroupFailed(s, "deferred")
    /\ r = "FRBlock" => \E b \in 1..NB(s) : s.dur[ScopeName(b)].st = FA
    /\ r \in {"FRUnknown", "FRPreCheck", "FRContCheck", "FRPostCheck", "FRDeferredCheck", "FRBlock"}
C04_Reason(s, e) == (e.ev = "WaitRet" /\ Live(s)) => ReasonTruthful(s, SnapOf(e.snap)["p"].st, e.reason)
C04_FailedCheckFailsPlan(s, e) == (e.ev = "WaitRet" /\ Live(s) /\ ~BypassedScope(s, 0)) =>
    (PlanGroupFailed(s, "post") => SnapOf(e.snap)["p"].st = FA)

(* ---------------- C05: attempts ---------------- *)
C05_Bound(s, e) == (IsP(e) /\ Running(s)) => RunCalls(s, e.obj) + 1 <= Retries(s, D(s, e.obj)) + 1
\* across a restart: what is durable of an action's attempts counts against its budget, and is kept (sequence actions;
\* check actions are run afresh)
C05_BudgetAcrossRestart(s, e) ==
    /\ (IsP(e) /\ Resumed(s) /\ D(s, e.obj).k = "act") =>
          s.cdur[e.obj].natt + RunCalls(s, e.obj) + 1 <= Retries(s, D(s, e.obj)) + 1
    /\ (IsW(e) /\ Resumed(s) /\ D(s, e.obj).k = "act") => e.natt >= s.cdur[e.obj].natt
FinalOut == {"ok", "perm", "wrongtype", "wrongtr"}   \* outcomes after which the plugin is never invoked again
C05_StopOnFinal(s, e) == (IsP(e) /\ Running(s)) => s.lastOut[e.obj] \notin FinalOut
C05_OneAttemptPerCall(s, e) == (IsW(e) /\ Running(s) /\ D(s, e.obj).k \in {"act", "cact"}) =>
    /\ e.natt <= RunCalls(s, e.obj)
    /\ e.aok
    /\ Terminal(e.st) =>
          /\ e.natt = RunCalls(s, e.obj)
          /\ (e.st = CO) <=> (e.last = "ok")
          /\ e.st = FA => (s.lastOut[e.obj] \in {"perm", "wrongtype", "wrongtr"} \/ RunCalls(s, e.obj) = Retries(s, D(s, e.obj)) + 1)
C05_Recorded(s, e) == (e.ev = "WaitRet" /\ Live(s)) =>
    \A x \in ToSet(e.snap) : (D(s, x.obj).k \in {"act", "cact"} /\ s.inflN[x.obj] = 0 /\ "?" \notin ToSet(s.outs[x.obj])) =>
        /\ x.dig = DigStr(s.outs[x.obj])
        /\ x.last = "ok" => x.rtag = s.lastTag[x.obj]
        /\ x.last # "wrongtype-kept"
\* an attempt is the record of ITS invocation: attempt i exists only once invocation i has returned (or overran its
\* timeout), is of that invocation's kind and carries that invocation's response or error - not another one's
LastLetter(l) == CASE l = "ok" -> "o" [] l = "timeout" -> "x" [] l \in {"wrongtype", "wrongtype-kept"} -> "w"
                   [] l = "perm" -> "p" [] l = "tr" -> "t" [] OTHER -> "?"
C05_AttemptIsItsCall(s, e) ==
    (IsW(e) /\ Running(s) /\ D(s, e.obj).k \in {"act", "cact"} /\ e.natt >= 1 /\ e.natt <= Len(s.outs[e.obj])) =>
        LET o == s.outs[e.obj][e.natt] IN
        /\ o # "?"
        /\ o = LastLetter(e.last)
        /\ e.last \in {"ok", "tr", "perm"} => e.rtag = e.obj \o "@" \o ToString(s.rb[e.obj] + e.natt)
C05_Overrun(s, e) == (e.ev = "PEnd" /\ e.out \in {"overrun", "lateok"}) => e.ctxdone

(* ---------------- C06: bypass and pre-check gating ---------------- *)
\* (a scope whose bypass checks had durably passed before a crash stays bypassed in the process that resumes the plan)
BypassedAtCrash(s, sc) == s.crashed /\ HasGroup(s, sc, "bypass") /\ s.cdur[Grp(sc, "bypass")].st = CO
C06_BypassSkips(s, e) ==
    /\ (IsP(e) /\ Running(s)) =>
          /\ ~BypassedScope(s, 0)
          /\ D(s, e.obj).b >= 1 => ~BypassedScope(s, D(s, e.obj).b)
    /\ (IsP(e) /\ s.crashed) =>
          /\ ~BypassedAtCrash(s, 0)
          /\ D(s, e.obj).b >= 1 => ~BypassedAtCrash(s, D(s, e.obj).b)
    /\ (e.ev = "WaitRet" /\ Live(s)) =>
          \A sc \in 0..NB(s) : (BypassedScope(s, sc) /\ (sc = 0 \/ ~BypassedScope(s, 0))) => SnapOf(e.snap)[ScopeName(sc)].st = CO
\* a bypass group that gave its answer before the crash (passed or failed, durably) is not asked again by the process
\* that resumes the plan: "if any bypass check fails the scope runs normally" - also after a restart
C06_BypassNotAgain(s, e) == (IsP(e) /\ s.crashed /\ D(s, e.obj).k = "cact" /\ D(s, e.obj).g = "bypass") =>
    ~Terminal(s.cdur[Grp(D(s, e.obj).b, "bypass")].st)
C06_BypassFailRuns(s, e) == (e.ev = "WaitRet" /\ Live(s)) =>
    \* a failed bypass alone never fails the scope: a Failed scope has a cause other than its bypass group
    \A x \in ToSet(e.snap) : (D(s, x.obj).k = "blk" /\ x.st = FA) =>
        LET b == D(s, x.obj).b  t == BlockCfg(s, b).tol IN
        (t >= 0 /\ FailedSeqs(s, b) > t) \/ BlockChecksFailed(s, b) \/ PlanGroupFailed(s, "cont")
C06_PreFailBlocks(s, e) ==
    /\ (IsP(e) /\ Running(s) /\ D(s, e.obj).k = "act") =>
          /\ HasGroup(s, 0, "pre") => ~s.grpFail[Grp(0, "pre")]
          /\ HasGroup(s, D(s, e.obj).b, "pre") => ~s.grpFail[Grp(D(s, e.obj).b, "pre")]
    /\ (e.ev = "WaitRet" /\ Live(s) /\ ~BypassedScope(s, 0)) => (PlanGroupFailed(s, "pre") => SnapOf(e.snap)["p"].st = FA)
    \* "the scope ends Failed" for a block: whatever its bypass group said before (a failed bypass runs the block normally)
    /\ (e.ev = "WaitRet" /\ Live(s) /\ ~BypassedScope(s, 0)) =>
          \A b \in 1..NB(s) : (~BypassedScope(s, b) /\ GroupFailed(s, b, "pre")) => SnapOf(e.snap)[ScopeName(b)].st = FA
\* an initial run of continuous checks that the crash interrupted (or that had not begun) is made by the process that
\* resumes the plan, and passes, before any sequence action of the scope is invoked
InitialContOwed(s, sc) ==
    /\ HasGroup(s, sc, "cont") /\ s.cdur[Grp(sc, "cont")].st \notin {CO, FA}
    /\ \A q \in DOMAIN s.seqRuns : InScope(D(s, q), sc) => s.cdur[q].st = NS
C06_ContInitialAcrossRestart(s, e) == (IsP(e) /\ Resumed(s) /\ D(s, e.obj).k = "act") =>
    /\ InitialContOwed(s, 0) => s.grpFirst[Grp(0, "cont")] = "ok"
    /\ InitialContOwed(s, D(s, e.obj).b) => s.grpFirst[Grp(D(s, e.obj).b, "cont")] = "ok"
C06_ContInitialFail(s, e) ==
    \* no sequence action is invoked after a failed initial run ...
    /\ (IsP(e) /\ Running(s) /\ D(s, e.obj).k = "act") =>
          /\ HasGroup(s, 0, "cont") => s.grpFirst[Grp(0, "cont")] # "fail"
          /\ HasGroup(s, D(s, e.obj).b, "cont") => s.grpFirst[Grp(D(s, e.obj).b, "cont")] # "fail"
    \* ... nor before it: when the first run of a cont group ends Failed nothing of the scope has been invoked yet
    /\ (IsW(e) /\ Running(s) /\ D(s, e.obj).k = "chk" /\ D(s, e.obj).g = "cont" /\ e.st = FA
          /\ s.grpOpen[e.obj] /\ s.grpFirst[e.obj] = "none") =>
          \A q \in s.invoked : ~InScope(D(s, q), D(s, e.obj).b)
    \* ... and the scope ends Failed
    /\ (e.ev = "WaitRet" /\ Live(s) /\ ~BypassedScope(s, 0)) =>
          \A sc \in 0..NB(s) : (~BypassedScope(s, sc) /\ HasGroup(s, sc, "cont") /\ s.grpFirst[Grp(sc, "cont")] = "fail") =>
              SnapOf(e.snap)[ScopeName(sc)].st = FA

(* ---------------- C07: continuous and deferred checks ---------------- *)
C07_ContKeepsRunning(s, e) == e.ev = "HoldTimeout" => FALSE
C07_ContFailureFails(s, e) ==
    /\ (IsW(e) /\ Running(s) /\ D(s, e.obj).k = "blk" /\ e.st = CO /\ ~BypassedScope(s, D(s, e.obj).b)) =>
          (HasGroup(s, D(s, e.obj).b, "cont") => ~s.grpFail[Grp(D(s, e.obj).b, "cont")])
    /\ (e.ev = "WaitRet" /\ Live(s) /\ ~BypassedScope(s, 0) /\ PlanGroupFailed(s, "cont")) =>
          /\ SnapOf(e.snap)["p"].st = FA
          /\ e.reason \in ({"FRContCheck"} \cup (IF PlanGroupFailed(s, "pre") THEN {"FRPreCheck"} ELSE {}))
EnteredScopes(s) == (IF BypassedScope(s, 0) THEN {} ELSE {0}) \cup {b \in s.entered : ~BypassedScope(s, b)}
C07_DeferredOnce(s, e) == (e.ev = "WaitRet" /\ Live(s)) =>
    \A sc \in 0..NB(s) : HasGroup(s, sc, "deferred") =>
        s.grpRuns[Grp(sc, "deferred")] = (IF sc \in EnteredScopes(s) THEN 1 ELSE 0)
\* "... after everything else in that scope": when a deferred check is invoked nothing else of its scope is in flight
\* any more (runs of continuous checks excepted, as for C01_DeferredLast) and every sequence that was started has ended
C07_DeferredAfterAll(s, e) == (IsP(e) /\ Running(s) /\ D(s, e.obj).k = "cact" /\ D(s, e.obj).g = "deferred") =>
    LET d == D(s, e.obj) IN
    /\ \A x \in Infl(s) : InScope(D(s, x), d.b) => AllowedWithDeferred(D(s, x), d.b)
    /\ \A q \in s.seqStarted : InScope(D(s, q), d.b) => Terminal(s.dur[q].st)
C07_DeferredFails(s, e) ==
    /\ (e.ev = "WaitRet" /\ Live(s) /\ ~BypassedScope(s, 0)) => (PlanGroupFailed(s, "deferred") => SnapOf(e.snap)["p"].st = FA)
    /\ (IsW(e) /\ Running(s) /\ D(s, e.obj).k = "blk" /\ e.st = CO /\ ~BypassedScope(s, D(s, e.obj).b)) =>
          (HasGroup(s, D(s, e.obj).b, "deferred") => ~s.grpFail[Grp(D(s, e.obj).b, "deferred")])
\* ... and exactly once also across a restart: a deferred group that had completed a run (passed or failed) before the
\* crash is not run again by the new process
C07_DeferredNotAgain(s, e) == (IsP(e) /\ s.crashed /\ D(s, e.obj).k = "cact" /\ D(s, e.obj).g = "deferred") =>
    ~Terminal(s.cdur[Grp(D(s, e.obj).b, "deferred")].st)

(* ---------------- C08: persist before act ---------------- *)
C08_RunningBeforeInvoke(s, e) == (IsP(e) /\ s.waited = <<>>) => s.dur[e.obj].st = RU
C08_AttemptBeforeNext(s, e) == (IsP(e) /\ s.waited = <<>> /\ ~s.frozen) =>
    /\ s.dur[e.obj].natt >= RunCalls(s, e.obj)
    /\ (D(s, e.obj).k = "act" /\ D(s, e.obj).a > 1) =>
          \* the previous action's successful attempt is durable (after a restart its status may still read Running)
          LET p == ActName(D(s, e.obj).b, D(s, e.obj).s, D(s, e.obj).a - 1) IN
          s.dur[p].natt >= 1 /\ s.dur[p].last = "ok" /\ (Live(s) => s.dur[p].st = CO)
C08_TerminalBeforeRelease(s, e) ==
    /\ (e.ev = "WaitRet" /\ (Live(s) \/ Resumed(s))) =>
          /\ Terminal(s.dur["p"].st)
          /\ \A x \in ToSet(e.snap) : s.dur[x.obj].st = x.st /\ s.dur[x.obj].natt = x.natt
    /\ (s.waited # <<>> /\ IsW(e)) => FALSE
C08_Monotone(s, e) == (e.ev = "R" /\ D(s, e.obj).k \in {"blk", "seq", "act"}) =>
    (s.rterm[e.obj] # "none" => e.st = s.rterm[e.obj])
\* the same for the scopes: nothing of a block (or plan) is invoked - not even its bypass checks - before the block
\* (the plan) has durably been started (it may already be durably Failed: deferred checks and the last runs of
\* continuous checks follow a failed post-check)
C08_ScopeRunningBeforeInvoke(s, e) == (IsP(e) /\ Running(s)) =>
    /\ s.dur["p"].st # NS
    /\ D(s, e.obj).b >= 1 => s.dur[ScopeName(D(s, e.obj).b)].st # NS
\* fail-stop: a state change that could not be made durable is never acted on. The scenarios that inject a write
\* failure are strictly sequential (one goroutine writes), so nothing at all may follow the failed write in that
\* process lifetime: no plugin invocation, no further write, no released waiter. (The code ends the process.)
C08_FailStop(s, e) == (s.wfailed /\ e.ev \in {"PStart", "W", "WaitRet"}) => FALSE

(* ---------------- C09: no re-execution after a crash ---------------- *)
\* (the deferred checks of a block that had failed but not yet run them are still owed after the restart: running
\* them is not re-running the block; C07_DeferredNotAgain forbids running them a second time)
EnclosingTerminal(s, d) ==
    \/ Terminal(s.cdur["p"].st)
    \/ d.b >= 1 /\ Terminal(s.cdur[ScopeName(d.b)].st) /\ ~(d.k = "cact" /\ d.g = "deferred")
    \/ d.k = "act" /\ Terminal(s.cdur[SeqName(d.b, d.s)].st)
C09_NoRedoAction(s, e) == (IsP(e) /\ s.crashed /\ D(s, e.obj).k = "act") =>
    (s.cdur[e.obj].st # CO /\ s.cdur[e.obj].last # "ok")
C09_NoRedoFinished(s, e) == (IsP(e) /\ s.crashed) =>
    /\ ~EnclosingTerminal(s, D(s, e.obj))
    /\ D(s, e.obj).k = "act" => s.cdur[e.obj].st # FA
\* (a durable permanent failure is a durable result as well: C05's "never again after a permanent error" does not
\* end with the process)
C09_OnlyInFlight(s, e) == (IsP(e) /\ s.crashed /\ D(s, e.obj).k = "act") =>
    \/ s.cdur[e.obj].st = NS
    \/ s.cdur[e.obj].st = RU /\ s.cdur[e.obj].last \notin {"ok", "perm", "wrongtype", "wrongtype-kept"}

(* ---------------- C10: recovery converges ---------------- *)
C10_Terminates(s, e) == ((e.ev = "Hang" \/ (e.ev = "ProcDied" /\ s.waited = <<>>)) /\ s.crashed) => FALSE
C10_Terminal(s, e) == (e.ev = "WaitRet" /\ Resumed(s)) => (e.ok /\ Terminal(SnapOf(e.snap)["p"].st))
C10_NothingRunning(s, e) == (e.ev = "WaitRet" /\ Resumed(s)) => \A x \in ToSet(e.snap) : x.st # RU
C10_Quiescent(s, e) ==
    /\ (e.ev = "WaitRet" /\ s.crashed) => (Infl(s) = {} /\ e.infl = 0)
    /\ (s.crashed /\ s.waited # <<>> /\ e.ev \in {"W", "PStart"}) => FALSE
C10_Stable(s, e) == (e.ev = "Read" /\ s.crashed /\ s.waited # <<>>) => (e.snap = s.waited /\ e.reason = s.wreason)
C10_Consistent(s, e) == (e.ev = "WaitRet" /\ Resumed(s)) => SnapConsistent(s, e.snap)
C10_Times(s, e) == (e.ev = "WaitRet" /\ Resumed(s)) => \A x \in ToSet(e.snap) : TimesConsistent(x)
C10_DeferredRan(s, e) == (e.ev = "WaitRet" /\ Resumed(s)) =>
    LET sn == SnapOf(e.snap)
        byp(sc) == HasGroup(s, sc, "bypass") /\ sn[Grp(sc, "bypass")].st = CO IN
    \A sc \in 0..NB(s) : (HasGroup(s, sc, "deferred") /\ ~byp(0) /\ ~byp(sc) /\ (sc = 0 \/ sn[ScopeName(sc)].st # NS)) =>
        Terminal(sn[Grp(sc, "deferred")].st)
C10_SameOutcome(s, e) == (e.ev = "WaitRet" /\ Resumed(s) /\ s.cfg.fn /\ s.base # "-") =>
    SnapOf(e.snap)["p"].st = s.base

(* ---------------- C11: what is resumed at start-up ---------------- *)
Untouchable(s) == s.crashed /\ (~s.wasRunning \/ ~s.rec)
C11_Untouched(s, e) == Untouchable(s) =>
    /\ e.ev \notin {"W", "PStart"}
    /\ e.ev \in {"WaitRet", "Read"} => (e.ok /\ e.snap = s.csnap /\ e.reason = s.creason)
C11_AgedOut(s, e) == (s.crashed /\ s.wasRunning /\ s.rec /\ s.old) =>
    /\ e.ev # "PStart"
    /\ e.ev \in {"WaitRet", "Read"} =>
          /\ e.ok /\ SnapOf(e.snap)["p"].st = FA /\ e.reason = "FRExceedRecovery"
          /\ \A x \in ToSet(e.snap) : x.st # RU
C11_Resumed(s, e) == (e.ev = "WaitRet" /\ Resumed(s)) => (e.ok /\ Terminal(SnapOf(e.snap)["p"].st) /\ e.reason # "FRExceedRecovery")

(* ---------------- C12: at most one execution ---------------- *)
C12_AtMostOnce(s, e) ==
    /\ (IsW(e) /\ D(s, e.obj).k = "seq" /\ e.st = RU /\ s.dur[e.obj].st # RU) => s.seqRuns[e.obj] = 0
    /\ (IsP(e) /\ D(s, e.obj).k = "act") => s.tot[e.obj] + 1 <= s.cfg.retries + 1
    /\ (IsW(e) /\ D(s, e.obj).k \in {"plan", "blk", "seq", "act"} /\ e.obj \in s.termW) => Terminal(e.st)
C12_SecondStartRejected(s, e) == (e.ev = "StartRet" /\ e.after) => ~e.ok
C12_StaleRejected(s, e) == (e.ev = "StartRet" /\ e.stale) => ~e.ok
\* the number of Start calls of one step that returned nil is what spec/Api.tla says it must be
C12_StartVerdict(s, e) == e.ev = "ApiCheck" => e.got = e.expected
C12_NoDeath(s, e) == e.ev \in {"ProcDied", "Panic"} => FALSE
\* a rejected call has no side effects: in particular Wait still returns afterwards
C12_NoHang(s, e) == (e.ev = "Hang" /\ s.cfg.mode = "api") => FALSE

ClauseNames == {
    "C01_BlockOrder", "C01_ActionOrder", "C01_PreGate", "C01_PostAfterSeqs", "C01_DeferredLast",
    "C02_Bound", "C02_OneBlock",
    "C03_Bound", "C03_StopExact", "C03_BlockVerdict", "C03_AfterFailedBlock",
    "C04_WaitReturns", "C04_Terminal", "C04_NothingRunning", "C04_Quiescent", "C04_Stable", "C04_Consistent", "C04_Times", "C04_Reason",
    "C04_FailedCheckFailsPlan",
    "C05_Bound", "C05_StopOnFinal", "C05_OneAttemptPerCall", "C05_Recorded", "C05_Overrun", "C05_AttemptIsItsCall", "C05_BudgetAcrossRestart", "C08_FailStop",
    "C06_BypassSkips", "C06_BypassNotAgain", "C06_BypassFailRuns", "C06_PreFailBlocks", "C06_ContInitialFail", "C06_ContInitialAcrossRestart",
    "C07_ContKeepsRunning", "C07_ContFailureFails", "C07_DeferredOnce", "C07_DeferredFails", "C07_DeferredNotAgain", "C07_DeferredAfterAll",
    "C08_RunningBeforeInvoke", "C08_ScopeRunningBeforeInvoke", "C08_AttemptBeforeNext", "C08_TerminalBeforeRelease", "C08_Monotone",
    "C09_NoRedoAction", "C09_NoRedoFinished", "C09_OnlyInFlight",
    "C10_Terminates", "C10_Terminal", "C10_NothingRunning", "C10_Quiescent", "C10_Stable", "C10_Consistent", "C10_Times",
    "C10_DeferredRan", "C10_SameOutcome",
    "C11_Untouched", "C11_AgedOut", "C11_Resumed",
    "C12_AtMostOnce", "C12_SecondStartRejected", "C12_StaleRejected", "C12_StartVerdict", "C12_NoDeath", "C12_NoHang" }

Holds(c, s, e) ==
    CASE c = "C01_BlockOrder" -> C01_BlockOrder(s, e) [] c = "C01_ActionOrder" -> C01_ActionOrder(s, e)
      [] c = "C01_PreGate" -> C01_PreGate(s, e) [] c = "C01_PostAfterSeqs" -> C01_PostAfterSeqs(s, e)
      [] c = "C01_DeferredLast" -> C01_DeferredLast(s, e)
      [] c = "C02_Bound" -> C02_Bound(s, e) [] c = "C02_OneBlock" -> C02_OneBlock(s, e)
      [] c = "C03_Bound" -> C03_Bound(s, e) [] c = "C03_StopExact" -> C03_StopExact(s, e)
      [] c = "C03_BlockVerdict" -> C03_BlockVerdict(s, e) [] c = "C03_AfterFailedBlock" -> C03_AfterFailedBlock(s, e)
      [] c = "C04_WaitReturns" -> C04_WaitReturns(s, e) [] c = "C04_Terminal" -> C04_Terminal(s, e)
      [] c = "C04_NothingRunning" -> C04_NothingRunning(s, e) [] c = "C04_Quiescent" -> C04_Quiescent(s, e)
      [] c = "C04_Stable" -> C04_Stable(s, e) [] c = "C04_Consistent" -> C04_Consistent(s, e)
      [] c = "C04_Times" -> C04_Times(s, e)
      [] c = "C04_Reason" -> C04_Reason(s, e) [] c = "C04_FailedCheckFailsPlan" -> C04_FailedCheckFailsPlan(s, e)
      [] c = "C05_Bound" -> C05_Bound(s, e) [] c = "C05_StopOnFinal" -> C05_StopOnFinal(s, e)
      [] c = "C05_OneAttemptPerCall" -> C05_OneAttemptPerCall(s, e) [] c = "C05_Recorded" -> C05_Recorded(s, e)
      [] c = "C05_Overrun" -> C05_Overrun(s, e) [] c = "C05_AttemptIsItsCall" -> C05_AttemptIsItsCall(s, e) [] c = "C05_BudgetAcrossRestart" -> C05_BudgetAcrossRestart(s, e) [] c = "C08_FailStop" -> C08_FailStop(s, e)
      [] c = "C06_BypassSkips" -> C06_BypassSkips(s, e) [] c = "C06_BypassFailRuns" -> C06_BypassFailRuns(s, e)
      [] c = "C06_BypassNotAgain" -> C06_BypassNotAgain(s, e) [] c = "C06_ContInitialAcrossRestart" -> C06_ContInitialAcrossRestart(s, e)
      [] c = "C06_PreFailBlocks" -> C06_PreFailBlocks(s, e) [] c = "C06_ContInitialFail" -> C06_ContInitialFail(s, e)
      [] c = "C07_ContKeepsRunning" -> C07_ContKeepsRunning(s, e) [] c = "C07_ContFailureFails" -> C07_ContFailureFails(s, e)
      [] c = "C07_DeferredOnce" -> C07_DeferredOnce(s, e) [] c = "C07_DeferredFails" -> C07_DeferredFails(s, e)
      [] c = "C07_DeferredNotAgain" -> C07_DeferredNotAgain(s, e) [] c = "C07_DeferredAfterAll" -> C07_DeferredAfterAll(s, e)
      [] c = "C08_ScopeRunningBeforeInvoke" -> C08_ScopeRunningBeforeInvoke(s, e)
      [] c = "C08_RunningBeforeInvoke" -> C08_RunningBeforeInvoke(s, e) [] c = "C08_AttemptBeforeNext" -> C08_AttemptBeforeNext(s, e)
      [] c = "C08_TerminalBeforeRelease" -> C08_TerminalBeforeRelease(s, e) [] c = "C08_Monotone" -> C08_Monotone(s, e)
      [] c = "C09_NoRedoAction" -> C09_NoRedoAction(s, e) [] c = "C09_NoRedoFinished" -> C09_NoRedoFinished(s, e)
      [] c = "C09_OnlyInFlight" -> C09_OnlyInFlight(s, e)
      [] c = "C10_Terminates" -> C10_Terminates(s, e) [] c = "C10_Terminal" -> C10_Terminal(s, e)
      [] c = "C10_NothingRunning" -> C10_NothingRunning(s, e) [] c = "C10_Quiescent" -> C10_Quiescent(s, e)
      [] c = "C10_Stable" -> C10_Stable(s, e) [] c = "C10_Consistent" -> C10_Consistent(s, e)
      [] c = "C10_Times" -> C10_Times(s, e)
      [] c = "C10_DeferredRan" -> C10_DeferredRan(s, e) [] c = "C10_SameOutcome" -> C10_SameOutcome(s, e)
      [] c = "C11_Untouched" -> C11_Untouched(s, e) [] c = "C11_AgedOut" -> C11_AgedOut(s, e)
      [] c = "C11_Resumed" -> C11_Resumed(s, e)
      [] c = "C12_AtMostOnce" -> C12_AtMostOnce(s, e) [] c = "C12_SecondStartRejected" -> C12_SecondStartRejected(s, e)
      [] c = "C12_StaleRejected" -> C12_StaleRejected(s, e)
      [] c = "C12_StartVerdict" -> C12_StartVerdict(s, e)
      [] c = "C12_NoDeath" -> C12_NoDeath(s, e) [] c = "C12_NoHang" -> C12_NoHang(s, e)

Violated(s, e) == {c \in ClauseNames : ~Holds(c, s, e)}

(* The clauses that can be false for an event of a given type (every clause is an implication whose antecedent *)
(* fixes the event type).  ViolatedFast evaluates only those; EngineTraceSelf.cfg checks on recorded traces that *)
(* it agrees with Violated at every step, so the table cannot silently switch a clause off.                      *)
ClausesFor(t) ==
  CASE t = "PStart" -> {"C01_BlockOrder", "C01_ActionOrder", "C01_PreGate", "C01_PostAfterSeqs", "C01_DeferredLast", "C02_Bound", "C02_OneBlock",
                        "C03_AfterFailedBlock", "C04_Quiescent", "C05_Bound", "C05_StopOnFinal", "C05_BudgetAcrossRestart", "C06_BypassSkips", "C06_BypassNotAgain", "C06_PreFailBlocks", "C06_ContInitialAcrossRestart",
                        "C06_ContInitialFail", "C08_RunningBeforeInvoke", "C08_ScopeRunningBeforeInvoke", "C08_AttemptBeforeNext", "C09_NoRedoAction", "C09_NoRedoFinished",
                        "C09_OnlyInFlight", "C10_Quiescent", "C11_Untouched", "C11_AgedOut", "C12_AtMostOnce", "C07_DeferredNotAgain", "C07_DeferredAfterAll", "C08_FailStop"}
    [] t = "W" -> {"C07_DeferredFails", "C03_Bound", "C03_StopExact", "C03_BlockVerdict", "C04_Quiescent", "C05_OneAttemptPerCall", "C05_AttemptIsItsCall", "C05_BudgetAcrossRestart", "C06_ContInitialFail",
                   "C07_ContFailureFails", "C08_TerminalBeforeRelease", "C08_FailStop", "C10_Quiescent", "C11_Untouched", "C12_AtMostOnce"}
    [] t = "PEnd" -> {"C04_Quiescent", "C05_Overrun"}
    [] t = "WaitRet" -> {"C03_AfterFailedBlock", "C04_Terminal", "C04_NothingRunning", "C04_Quiescent", "C04_Consistent", "C04_Times", "C04_Reason",
                         "C04_FailedCheckFailsPlan", "C05_Recorded", "C06_BypassSkips", "C06_BypassFailRuns", "C06_PreFailBlocks", "C06_ContInitialFail",
                         "C07_ContFailureFails", "C07_DeferredOnce", "C07_DeferredFails", "C08_TerminalBeforeRelease", "C08_FailStop",
                         "C10_Terminal", "C10_NothingRunning", "C10_Quiescent", "C10_Consistent", "C10_Times", "C10_DeferredRan", "C10_SameOutcome",
                         "C11_Untouched", "C11_AgedOut", "C11_Resumed"}
    [] t = "Read" -> {"C04_Stable", "C10_Stable", "C11_Untouched", "C11_AgedOut"}
    [] t = "R" -> {"C08_Monotone"}
    [] t = "Hang" -> {"C04_WaitReturns", "C10_Terminates", "C12_NoHang"}
    [] t = "ProcDied" -> {"C04_WaitReturns", "C10_Terminates", "C12_NoDeath"}
    [] t = "HoldTimeout" -> {"C07_ContKeepsRunning"}
    [] t = "StartRet" -> {"C12_SecondStartRejected", "C12_StaleRejected"}
    [] t = "Panic" -> {"C12_NoDeath"}
    [] t = "ApiCheck" -> {"C12_StartVerdict"}
    [] OTHER -> {}
ViolatedFast(s, e) == {c \in ClausesFor(e.ev) : ~Holds(c, s, e)}

(***************************************************************************)
(* Observation update.                                                     *)
(***************************************************************************)
ObsW(s, e) ==
  LET d == D(s, e.obj)
      s1 == [s EXCEPT !.dur[e.obj] = [st |-> e.st, natt |-> e.natt, last |-> e.last],
                      !.entered = IF d.k = "blk" /\ e.st = RU THEN @ \cup {d.b} ELSE @,
                      !.termW = IF Terminal(e.st) /\ d.k \in {"plan", "blk", "seq", "act"} THEN @ \cup {e.obj} ELSE @,
                      !.frozen = @ \/ (d.k = "plan" /\ Terminal(e.st))]
      s2 == IF d.k = "seq" /\ e.st = RU /\ s.dur[e.obj].st # RU
              THEN [s1 EXCEPT !.seqRuns[e.obj] = @ + 1, !.seqStarted = @ \cup {e.obj}] ELSE s1 IN
  IF s.frozen THEN s2       \* writeEverything: no run bookkeeping after the terminal plan write
  ELSE IF d.k = "cact" /\ e.st = RU /\ e.natt = 0      \* start of a run of a check action
    THEN [s2 EXCEPT !.rb[e.obj] = s.tot[e.obj], !.ends[e.obj] = 0, !.lastOut[e.obj] = "none", !.outs[e.obj] = <<>>,
                    !.grpOpen[GroupOfAct(d)] = TRUE]
  ELSE IF d.k = "chk" /\ s.grpOpen[e.obj] /\ Terminal(e.st)   \* end of a run of a check group
    THEN LET r == IF e.st = CO THEN "ok" ELSE "fail" IN
         [s2 EXCEPT !.grpOpen[e.obj] = FALSE, !.grpRuns[e.obj] = @ + 1, !.grpRes[e.obj] = r,
                    !.grpFirst[e.obj] = IF @ = "none" THEN r ELSE @]
  ELSE s2

ObsPStart(s, e) ==
  LET d == D(s, e.obj) IN
  [s EXCEPT !.inflN[e.obj] = IF e.ov THEN @ ELSE @ + 1,
            !.tot[e.obj] = @ + 1,
            !.outs[e.obj] = Append(@, IF e.ov THEN "x" ELSE "?"),   \* an overrunning call can only be recorded as a timeout
            !.seqStarted = IF d.k = "act" THEN @ \cup {SeqName(d.b, d.s)} ELSE @,
            !.invoked = IF d.k = "act" THEN @ \cup {SeqName(d.b, d.s)} ELSE @,
            !.defStarted = IF d.k = "cact" /\ d.g = "deferred" THEN @ \cup {d.b} ELSE @,
            \* an invocation that will outlive the timeout has failed its attempt when it starts; its own return may come
            \* after the engine has long judged the group (found by TLC with Overruns: C04_Reason on the model)
            !.lastOut[e.obj] = IF e.ov THEN "overrun" ELSE @,
            !.grpFail = IF e.ov /\ d.k = "cact" /\ d.g # "bypass" /\ Len(s.outs[e.obj]) + 1 >= Retries(s, d) + 1
                        THEN [@ EXCEPT ![GroupOfAct(d)] = TRUE] ELSE @]

ObsPEnd(s, e) ==
  LET d == D(s, e.obj)
      i == e.n - s.rb[e.obj] IN
  [s EXCEPT !.inflN[e.obj] = IF e.out \in {"overrun", "lateok"} \/ @ = 0 THEN @ ELSE @ - 1,
            !.ends[e.obj] = @ + 1,
            !.lastOut[e.obj] = IF i = Len(s.outs[e.obj]) THEN e.out ELSE @,
            !.lastTag[e.obj] = IF i = Len(s.outs[e.obj]) THEN e.rtag ELSE @,
            !.outs[e.obj] = IF i \in 1..Len(@) THEN [@ EXCEPT ![i] = Letter(e.out)] ELSE @,
            \* a check action has failed when a call ends with a permanent failure or with the last allowed attempt failing
            !.grpFail = IF d.k = "cact" /\ d.g # "bypass" /\ i = Len(s.outs[e.obj]) /\ e.out # "ok"
                           /\ (e.out \in {"perm", "wrongtype", "wrongtr"} \/ i >= Retries(s, d) + 1)
                        THEN [@ EXCEPT ![GroupOfAct(d)] = TRUE] ELSE @]

\* a crash ends a process lifetime: everything that is local to a lifetime starts afresh
ObsCrash(s0, e) ==
  LET sn == SnapOf(e.snap)
      s == InitObs(s0.cfg) IN
  [s EXCEPT !.crashed = TRUE,
            !.cdur = [o \in DOMAIN sn |-> [st |-> sn[o].st, natt |-> sn[o].natt, last |-> sn[o].last]],
            !.dur = [o \in DOMAIN sn |-> [st |-> sn[o].st, natt |-> sn[o].natt, last |-> sn[o].last]],
            !.base = e.base,
            !.old = e.old, !.rec = e.recovery, !.csnap = e.snap, !.creason = e.reason,
            !.wasRunning = (sn["p"].st = RU)]

Observe(s, e) ==
  CASE e.ev = "W" -> ObsW(s, e)
    [] e.ev = "PStart" -> ObsPStart(s, e)
    [] e.ev = "PEnd" -> ObsPEnd(s, e)
    [] e.ev = "Crash" -> ObsCrash(s, e)
    [] e.ev = "WaitRet" -> [s EXCEPT !.waited = e.snap, !.wreason = e.reason]
    [] e.ev = "WFail" -> [s EXCEPT !.wfailed = TRUE]
    [] e.ev = "R" -> [s EXCEPT !.rterm[e.obj] = IF Terminal(e.st) /\ @ = "none" THEN e.st ELSE @]
    [] OTHER -> s
=============================================================================
