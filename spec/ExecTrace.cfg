SPECIFICATION TSpec
CONSTANTS
  Plans <- TP
  Callers <- TC
  MaxCalls = 100000000
  MaxCrashes = 0
  RecoveryModes <- TModes
  Ops <- TOps
  Aging = TRUE
  TwoStep = TRUE
  RecAging = TRUE
  MaxFaults = 1
CONSTRAINTS Mark NotYetAccepted
POSTCONDITION Accepted
CHECK_DEADLOCK FALSE
