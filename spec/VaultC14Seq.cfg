SPECIFICATION Spec
CONSTANTS
  Ids = {"p1","p2","p3"}
  CIds = {"p1","p2"}
  ShapeNames = {"S1"}
  Ops = {"Create","CreateFail","CreateIOFail","Delete","DeleteIOFail","UpdatePlan"}
  Groups = {1}
  InitVers = {0}
  MaxVer = 1
  MaxLen = 3
  MaxUpd = 99
  Sim = FALSE
  FMax = 1
INVARIANTS TypeOK TimesDistinct RunningFound ListSound EmitAtEnd
PROPERTIES FailNoTrace DeleteExact UpdateLocal ReadIffLive
CHECK_DEADLOCK FALSE
