SPECIFICATION Spec
CONSTANTS
  Ids = {"p1","p2","p3"}
  CIds = {"p1","p2"}
  ShapeNames = {"S1"}
  Ops = {"Create","Delete","UpdatePlan","Exists","Search","SearchNone","List"}
  Groups = {1}
  InitVers = {1}
  MaxVer = 2
  MaxLen = 3
  MaxUpd = 99
  Sim = FALSE
  FMax = 1
INVARIANTS TypeOK TimesDistinct RunningFound ListSound EmitAtEnd
PROPERTIES FailNoTrace DeleteExact UpdateLocal ReadIffLive
CHECK_DEADLOCK FALSE
