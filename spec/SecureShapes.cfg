SPECIFICATION SpecShapes
CONSTANTS Depth = 3  Wide = TRUE  RegDepth = 2  RegWide = TRUE
INVARIANTS ScrubSound NoTagNoScrub Decided NestingInvariant NonTrivial Emit
CHECK_DEADLOCK FALSE
