------------------------------ MODULE ExecTrace ------------------------------
(***************************************************************************)
(* Trace validation (code -> model) for Exec.tla: is a history recorded    *)
(* from a real Workstream (harness/ws_test.go) a behaviour of Exec.tla?    *)
(*                                                                         *)
(* trace.ndjson is a concatenation of histories, each beginning with its   *)
(* Config line.  Logged: XCall / XRet of every API call (caller, op, plan, *)
(* reply), PStart / PEnd of the plugin, XRestart (a new process on a store *)
(* rebuilt from a prefix of the write log), W (a durable write, logged     *)
(* after it was made: a lower bound only, see TWrite).  Not logged, inferred by TLC:  *)
(* every internal step of Start, Wait, Status and of the plan goroutines   *)
(* (readers are lock-free, so the writes cannot be ordered against the     *)
(* reads by log position) and the moment a submission becomes too old      *)
(* (bounded by what the harness measured before the call, oldb, and after  *)
(* the return, olda).                                                      *)
(* Acceptance: the high-water mark of the line counter (TLC register 1)    *)
(* passes the last line; -workers 1.                                        *)
(***************************************************************************)
EXTENDS Exec, Json

TraceLog == ndJsonDeserialize("trace.ndjson")
TP == {1, 2}
TC == 0..16
TModes == {TRUE, FALSE}
TOps == {"submit", "start", "wait", "waitto", "plan", "status"}

VARIABLE l
tvars == <<vars, l>>
Line == TraceLog[l]
More == l <= Len(TraceLog)

Fresh(rec) ==
  /\ store' = [p \in Plans |-> "none"] /\ adone' = [p \in Plans |-> "no"] /\ idx' = [p \in Plans |-> "none"] /\ old' = [p \in Plans |-> FALSE]
  /\ alive' = TRUE /\ recovery' = rec /\ mu' = 0
  /\ waiter' = [p \in Plans |-> 0] /\ gen' = 1 /\ closed' = {} /\ runners' = {}
  /\ call' = [c \in Callers |-> Idle] /\ ncalls' = 0 /\ crashes' = 0
  /\ okstart' = [p \in Plans |-> FALSE]
  /\ inv' = [p \in Plans |-> 0] /\ redo' = [p \in Plans |-> 0] /\ fresh' = [p \in Plans |-> 0] /\ lost' = [p \in Plans |-> 0]
  /\ panicked' = FALSE /\ faults' = [p \in Plans |-> 0] /\ ev' = NoEv

TReset == Line.ev = "Config" /\ Fresh(Line.recovery)

TCall ==
  /\ Line.ev = "XCall"
  /\ Begin(Line.c, Line.op, Line.p)
  /\ Line.oldb => old[Line.p]        \* measured before the call: the submission was already too old

TRet ==
  /\ Line.ev = "XRet"
  /\ Return(Line.c)
  /\ ev'.op = Line.op /\ ev'.p = Line.p /\ (ev'.res = Line.res \/ Line.res = "any")   \* "any": a Wait whose context expired and whose read failed too
  /\ (Line.op = "start" /\ ~Line.olda) => ~old[Line.p]   \* measured after the return: it was not too old yet

TPStart == Line.ev = "PStart" /\ \E r \in runners : r.p = Line.p /\ RInvoke(r)
TPEnd == Line.ev = "PEnd" /\ \E r \in runners : r.p = Line.p /\ RPlugin(r, Line.out)

(* A new process on a store rebuilt from a PREFIX of the durable write log: every plan's durable state is one it  *)
(* had earlier in this history (or has now).                                                                       *)
TRestart ==
  /\ Line.ev = "XRestart"
  /\ LET st == [p \in Plans |-> Line.st[p]]
         ad == [p \in Plans |-> Line.ad[p]]
         ix == [p \in Plans |-> Line.idx[p]]     \* what the search index holds: the plan's status, or the one before its last write
     IN /\ \A p \in Plans : Rank(st[p]) <= Rank(store[p]) /\ ((store[p] \in Terminal /\ st[p] \in Terminal) => st[p] = store[p])
        /\ \A c \in Callers : call[c].op = "idle"
        /\ LET ag == {p \in Plans : Line.aged[p]} IN     \* Running plans the new process finds too old: closed, not resumed
             /\ ag \subseteq {p \in Plans : IndexRepaired(st, ix)[p] = "RU"} /\ (ag # {} => Line.recovery)
             /\ store' = [p \in Plans |-> IF p \in ag THEN "FA" ELSE st[p]] /\ adone' = ad
             /\ idx' = [p \in Plans |-> IF p \in ag THEN "FA" ELSE IndexRepaired(st, ix)[p]]
             /\ Boot(st, IndexRepaired(st, ix), Line.recovery, ag, gen)
  /\ ev' = [ev |-> "XRestart"]
  /\ UNCHANGED <<old, closed, ncalls, crashes, Hist, panicked, faults>>

\* the harness arms / disarms a failure of the next read of a plan from storage
TFault == (Line.ev = "XFault" /\ Arm(Line.p)) \/ (Line.ev = "XFaultClear" /\ IF faults[Line.p] > 0 THEN Disarm(Line.p) ELSE UNCHANGED vars)

(* A durable write, logged by the vault spy AFTER it was made (so the model's own, silent, write step came earlier):   *)
(* only a plan somebody runs in this process lifetime is ever written to - "plans never started stay untouched,      *)
(* terminal plans are never executed or modified again" (C11), "it never changes afterwards" (C04) - and a write of   *)
(* the plan's own status is one the model's goroutine has made.                                                        *)
TWrite ==
  /\ Line.ev = "W"
  /\ okstart[Line.p]
  \* (the plan's own writes come from one goroutine, each logged before the next is made: TLC can always place the model's
  \* silent write between the two log lines, so equality can be demanded)
  /\ Line.k = "plan" => store[Line.p] = Line.st
  /\ UNCHANGED vars

Silent == (Internal \/ (\E c \in Callers : WGiveUp(c)) \/ (\E p \in Plans : Age(p))) /\ UNCHANGED l
TNext == \/ More /\ (TReset \/ TCall \/ TRet \/ TPStart \/ TPEnd \/ TRestart \/ TWrite \/ TFault) /\ l' = l + 1
         \/ Silent
TInit == Init /\ l = 1
TSpec == TInit /\ [][TNext]_tvars

Mark == TLCGet(1) < l => TLCSet(1, l)
NotYetAccepted == TLCGet(1) <= Len(TraceLog)
Accepted == /\ JsonSerialize("exec.json", [lines |-> Len(TraceLog), reached |-> TLCGet(1) - 1])
            /\ TLCGet(1) = Len(TraceLog) + 1
ASSUME TLCSet(1, 0)
=============================================================================
