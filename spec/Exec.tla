-------------------------------- MODULE Exec --------------------------------
(***************************************************************************)
(* The Workstream's plan registry as a CONCURRENT system (C12; the Wait    *)
(* part of C04; the "only Running plans are resumed" part of C11):         *)
(* internal/execute/execute.go  Plans.Start / runPlan / Wait / recover,    *)
(* coercion.go  Submit / Plan / Status, for several plan ids on one        *)
(* Workstream, several concurrent callers, a crash at any step and a new   *)
(* process on the same storage (with or without recovery).                 *)
(*                                                                         *)
(* Engine.tla models ONE plan in depth; this module models the plan as a   *)
(* single action (tiny plan: one block, one sequence, one action, no       *)
(* retries) and the registry in depth: one step per critical section of    *)
(* the code -                                                              *)
(*   Start :  lock startMu . waiters.Get . store.Read . validate .         *)
(*            runPlan (waiters.Set + goroutine) . unlock . return          *)
(*   runner:  write plan Running . invoke plugin . plugin returns . write  *)
(*            the attempt . write the terminal plan . waiters.Get + close  *)
(*            (BY KEY, as coded) . waiters.Del (BY KEY)                    *)
(*   Wait  :  waiters.Get . block on that channel . store.Read . return    *)
(*   Status:  read until the status is not Running                         *)
(*   New   :  (recovery) every plan stored Running gets runPlan(Recovery)  *)
(*                                                                         *)
(* Every API call emits XCall when it begins and XRet when it returns,     *)
(* the plugin emits PStart / PEnd; everything else is silent, because the  *)
(* registry is lock-free for readers: ExecTrace.tla lets TLC infer the     *)
(* silent steps between the logged ones.                                   *)
(***************************************************************************)
EXTENDS Integers, Sequences, FiniteSets, TLC

CONSTANTS Plans,        \* plan ids (1..2)
          Callers,      \* caller ids
          MaxCalls,     \* bound on the number of API calls (exhaustive configurations)
          MaxCrashes,
          RecoveryModes, \* subset of BOOLEAN: what a new process may be configured with
          Ops,          \* the API operations callers may use
          Aging,        \* TRUE: a submitted plan may grow older than the maximum submit age
          TwoStep,      \* TRUE: the vault keeps its search index in a second container, written in a second step (cosmosdb)
          RecAging,     \* TRUE: a new process may find Running plans whose last activity is older than the maximum (C11)
          MaxFaults     \* how many storage reads may be made to fail (exhaustive configurations)

VARIABLES store,    \* durable status of the plan: "none" | "NS" | "RU" | "CO" | "FA"
          adone,    \* durable result of the plan's action: "no" | "ok" | "fail"
          idx,      \* the plan's status in the vault's search index (what Search/List answer from); = store for a one-step vault
          old,      \* the submission is older than the configured maximum
          alive, recovery,
          mu,       \* startMu: 0 or the caller holding it
          waiter,   \* waiters map: plan -> generation of the registered channel, 0 = not registered
          gen,      \* next channel / runner generation
          closed,   \* generations of closed channels
          runners,  \* plan goroutines: set of [id, p, pc, out]
          call,     \* per caller: the call in progress
          ncalls, crashes,
          okstart,  \* a Start of the plan returned nil in this process lifetime, or recovery resumed it
          inv, redo, fresh, lost,   \* history counters for the invariants
          panicked,
          faults,   \* per plan: armed read failures - the next read(s) of the plan from storage fail
          ev        \* the event emitted by the last step (NoEv: silent step)

vars == <<store, adone, idx, old, alive, recovery, mu, waiter, gen, closed, runners, call, ncalls, crashes, okstart, inv, redo, fresh, lost, panicked, faults, ev>>
\* what the exhaustive configurations distinguish states by (ev is output only)
view == <<store, adone, idx, old, alive, recovery, mu, waiter, gen, closed, runners, call, ncalls, crashes, okstart, inv, redo, fresh, lost, panicked, faults>>

NoEv == [ev |-> "none"]
Idle == [op |-> "idle", p |-> 0, pc |-> "-", seen |-> "-", res |-> "-", g |-> 0, ws |-> FALSE, wo |-> FALSE]
Terminal == {"CO", "FA"}
Rank(s) == CASE s = "none" -> 0 [] s = "NS" -> 1 [] s = "RU" -> 2 [] OTHER -> 3

\* what the vault's own Recovery (storage.Recovery, called by coercion.New BEFORE the engine's recovery) makes of the index:
\* every plan the index lists as Running gets its search record rewritten from the plan itself
IndexRepaired(st, ix) == [p \in Plans |-> IF ix[p] = "RU" THEN st[p] ELSE ix[p]]
\* the volatile state of a new process on durable state st with (repaired) index ix: the engine's recovery resumes what
\* a status search for Running returns
\* (ag: the Running plans recovery finds too old; they are closed as Failed, not resumed - their writes come from recovery itself)
Boot(st, ix, rec, ag, g0) ==
  LET rs == IF rec THEN {p \in Plans : ix[p] = "RU"} \ ag ELSE {}
      num == CHOOSE f \in [rs -> g0..(g0 + Cardinality(rs))] : \A a, b \in rs : a # b => f[a] # f[b]
  IN /\ alive' = TRUE /\ recovery' = rec
     /\ mu' = 0
     /\ waiter' = [p \in Plans |-> IF p \in rs THEN num[p] ELSE 0]
     /\ gen' = g0 + Cardinality(rs) + 1
     /\ runners' = {[id |-> num[p], p |-> p, pc |-> "resume", out |-> "-"] : p \in rs}
     /\ call' = [c \in Callers |-> Idle]
     /\ okstart' = [p \in Plans |-> p \in rs \/ (rec /\ p \in ag)]

Init ==
  /\ store = [p \in Plans |-> "none"] /\ adone = [p \in Plans |-> "no"] /\ idx = [p \in Plans |-> "none"] /\ old = [p \in Plans |-> FALSE]
  /\ alive = TRUE /\ recovery \in RecoveryModes /\ mu = 0
  /\ waiter = [p \in Plans |-> 0] /\ gen = 1 /\ closed = {} /\ runners = {}
  /\ call = [c \in Callers |-> Idle] /\ ncalls = 0 /\ crashes = 0
  /\ okstart = [p \in Plans |-> FALSE]
  /\ inv = [p \in Plans |-> 0] /\ redo = [p \in Plans |-> 0] /\ fresh = [p \in Plans |-> 0] /\ lost = [p \in Plans |-> 0]
  /\ panicked = FALSE /\ faults = [p \in Plans |-> 0] /\ ev = NoEv

Hist == <<inv, redo, fresh, lost>>
Dur == <<store, adone, idx>>
Proc == <<alive, recovery>>

Set(c, f) == call' = [call EXCEPT ![c] = f]
Upd(c, pc2) == Set(c, [call[c] EXCEPT !.pc = pc2])
Res(c, r, pc2) == Set(c, [call[c] EXCEPT !.res = r, !.pc = pc2])

(***************************** API calls begin *****************************)
FirstPc(op) == CASE op = "start" -> "lock" [] op \in {"wait", "waitto"} -> "get" [] op = "plan" -> "read"
                 [] op = "status" -> "sread" [] op = "submit" -> "create"
Begin(c, op, p) ==
  /\ alive /\ ~panicked /\ call[c].op = "idle" /\ ncalls < MaxCalls
  \* a plan definition is submitted once per id (a second Submit of the same definition yields another id)
  /\ op = "submit" => store[p] = "none" /\ ~\E d \in Callers : call[d].op = "submit" /\ call[d].p = p
  /\ Set(c, [op |-> op, p |-> p, pc |-> FirstPc(op), seen |-> "-", res |-> "-", g |-> 0, ws |-> okstart[p], wo |-> old[p]])
  /\ ncalls' = ncalls + 1
  /\ ev' = [ev |-> "XCall", c |-> c, op |-> op, p |-> p]
  /\ UNCHANGED <<Dur, old, Proc, mu, waiter, gen, closed, runners, crashes, okstart, Hist, panicked, faults>>

Return(c) ==
  /\ alive /\ call[c].pc = "ret"
  /\ ev' = [ev |-> "XRet", c |-> c, op |-> call[c].op, p |-> call[c].p, res |-> call[c].res]
  /\ Set(c, Idle)
  /\ UNCHANGED <<Dur, old, Proc, mu, waiter, gen, closed, runners, ncalls, crashes, okstart, Hist, panicked, faults>>

(********************************* Submit *********************************)
SubCreate(c) ==
  /\ alive /\ call[c].pc = "create"
  /\ store' = [store EXCEPT ![call[c].p] = "NS"] /\ idx' = [idx EXCEPT ![call[c].p] = "NS"]   \* Create is all-or-nothing (C14)
  /\ Res(c, "ok", "ret") /\ ev' = NoEv
  /\ UNCHANGED <<adone, old, Proc, mu, waiter, gen, closed, runners, ncalls, crashes, okstart, Hist, panicked, faults>>

(********************************** Start *********************************)
SLock(c) ==
  /\ alive /\ call[c].pc = "lock" /\ mu = 0
  /\ mu' = c /\ Upd(c, "chk") /\ ev' = NoEv
  /\ UNCHANGED <<Dur, old, Proc, waiter, gen, closed, runners, ncalls, crashes, okstart, Hist, panicked, faults>>
SChk(c) ==
  /\ alive /\ call[c].pc = "chk"
  /\ IF waiter[call[c].p] # 0 THEN Res(c, "rej", "unlock") ELSE Upd(c, "read")
  /\ ev' = NoEv
  /\ UNCHANGED <<Dur, old, Proc, mu, waiter, gen, closed, runners, ncalls, crashes, okstart, Hist, panicked, faults>>
SRead(c) ==
  /\ alive /\ call[c].pc = "read" /\ call[c].op = "start"
  /\ LET p == call[c].p
         v == store[p] IN
       \/ /\ faults[p] = 0 \/ v = "none"
          /\ IF v = "none" THEN Res(c, "rej", "unlock") ELSE Set(c, [call[c] EXCEPT !.seen = v, !.pc = "val"])
          /\ UNCHANGED faults
       \/ /\ faults[p] > 0 /\ v # "none"          \* the read fails: Start returns the error, nothing is started
          /\ faults' = [faults EXCEPT ![p] = @ - 1] /\ Res(c, "rej", "unlock")
  /\ ev' = NoEv
  /\ UNCHANGED <<Dur, old, Proc, mu, waiter, gen, closed, runners, ncalls, crashes, okstart, Hist, panicked>>
SVal(c) ==
  /\ alive /\ call[c].pc = "val"
  /\ IF call[c].seen = "NS" /\ ~old[call[c].p] THEN Upd(c, "run") ELSE Res(c, "rej", "unlock")
  /\ ev' = NoEv
  /\ UNCHANGED <<Dur, old, Proc, mu, waiter, gen, closed, runners, ncalls, crashes, okstart, Hist, panicked, faults>>
SRun(c) ==
  /\ alive /\ call[c].pc = "run"
  /\ LET p == call[c].p IN
       /\ waiter' = [waiter EXCEPT ![p] = gen]
       /\ runners' = runners \cup {[id |-> gen, p |-> p, pc |-> "begin", out |-> "-"]}
       /\ gen' = gen + 1
       /\ okstart' = [okstart EXCEPT ![p] = TRUE]
       /\ fresh' = [fresh EXCEPT ![p] = @ + 1]
  /\ Res(c, "ok", "unlock") /\ ev' = NoEv
  /\ UNCHANGED <<Dur, old, Proc, mu, closed, ncalls, crashes, inv, redo, lost, panicked, faults>>
SUnlock(c) ==
  /\ alive /\ call[c].pc = "unlock"
  /\ mu' = 0 /\ Upd(c, "ret") /\ ev' = NoEv
  /\ UNCHANGED <<Dur, old, Proc, waiter, gen, closed, runners, ncalls, crashes, okstart, Hist, panicked, faults>>

(***************************** Wait, Plan, Status **************************)
WGet(c) ==
  /\ alive /\ call[c].pc = "get"
  /\ LET g == waiter[call[c].p] IN
       IF g = 0 THEN Upd(c, "read") ELSE Set(c, [call[c] EXCEPT !.g = g, !.pc = "block"])
  /\ ev' = NoEv
  /\ UNCHANGED <<Dur, old, Proc, mu, waiter, gen, closed, runners, ncalls, crashes, okstart, Hist, panicked, faults>>
WBlock(c) ==
  /\ alive /\ call[c].pc = "block" /\ call[c].g \in closed
  /\ Upd(c, "read") /\ ev' = NoEv
  /\ UNCHANGED <<Dur, old, Proc, mu, waiter, gen, closed, runners, ncalls, crashes, okstart, Hist, panicked, faults>>
\* a Wait whose context expires first
WGiveUp(c) ==
  /\ alive /\ call[c].pc = "block" /\ call[c].op = "waitto"
  /\ Res(c, "cancel", "ret") /\ ev' = NoEv
  /\ UNCHANGED <<Dur, old, Proc, mu, waiter, gen, closed, runners, ncalls, crashes, okstart, Hist, panicked, faults>>
RRead(c) ==
  /\ alive /\ call[c].pc = "read" /\ call[c].op # "start"
  /\ LET p == call[c].p
         v == store[p] IN
       \/ Res(c, IF v = "none" THEN "err" ELSE v, "ret") /\ (faults[p] = 0 \/ v = "none") /\ UNCHANGED faults
       \/ faults[p] > 0 /\ v # "none" /\ faults' = [faults EXCEPT ![p] = @ - 1] /\ Res(c, "err", "ret")
  /\ ev' = NoEv
  /\ UNCHANGED <<Dur, old, Proc, mu, waiter, gen, closed, runners, ncalls, crashes, okstart, Hist, panicked>>
\* Status: reads until the plan is not Running (a Running plan that nobody runs: the consumer gives up)
SRd(c) ==
  /\ alive /\ call[c].pc = "sread"
  /\ LET v == store[call[c].p] IN
       \/ v # "RU" /\ Res(c, IF v = "none" THEN "err" ELSE v, "ret")
       \/ v = "RU" /\ (~\E r \in runners : r.p = call[c].p) /\ Res(c, "RU", "ret")
  /\ ev' = NoEv
  /\ UNCHANGED <<Dur, old, Proc, mu, waiter, gen, closed, runners, ncalls, crashes, okstart, Hist, panicked, faults>>

(***************************** the plan goroutine **************************)
Move(r, pc2) == runners' = (runners \ {r}) \cup {[r EXCEPT !.pc = pc2]}
RBegin(r) ==
  /\ alive /\ r.pc = "begin"
  /\ store' = [store EXCEPT ![r.p] = "RU"] /\ ev' = NoEv
  /\ IF TwoStep THEN Move(r, "ibegin") /\ UNCHANGED idx ELSE Move(r, "invoke") /\ idx' = [idx EXCEPT ![r.p] = "RU"]
  /\ UNCHANGED <<adone, old, Proc, mu, waiter, gen, closed, call, ncalls, crashes, okstart, Hist, panicked, faults>>
RResume(r) ==
  /\ alive /\ r.pc = "resume"
  /\ Move(r, IF adone[r.p] = "no" THEN "invoke" ELSE "finish") /\ ev' = NoEv
  /\ UNCHANGED <<Dur, old, Proc, mu, waiter, gen, closed, call, ncalls, crashes, okstart, Hist, panicked, faults>>
RInvoke(r) ==
  /\ alive /\ r.pc = "invoke"
  /\ Move(r, "incall") /\ inv' = [inv EXCEPT ![r.p] = @ + 1]
  /\ ev' = [ev |-> "PStart", p |-> r.p]
  /\ UNCHANGED <<Dur, old, Proc, mu, waiter, gen, closed, call, ncalls, crashes, okstart, redo, fresh, lost, panicked, faults>>
RPlugin(r, o) ==
  /\ alive /\ r.pc = "incall"
  /\ runners' = (runners \ {r}) \cup {[r EXCEPT !.pc = "record", !.out = o]}
  /\ ev' = [ev |-> "PEnd", p |-> r.p, out |-> o]
  /\ UNCHANGED <<Dur, old, Proc, mu, waiter, gen, closed, call, ncalls, crashes, okstart, Hist, panicked, faults>>
RRecord(r) ==
  /\ alive /\ r.pc = "record"
  /\ adone' = [adone EXCEPT ![r.p] = r.out] /\ Move(r, "finish") /\ ev' = NoEv
  /\ UNCHANGED <<store, idx, old, Proc, mu, waiter, gen, closed, call, ncalls, crashes, okstart, Hist, panicked, faults>>
RFinish(r) ==
  /\ alive /\ r.pc = "finish"
  /\ LET t == IF adone[r.p] = "ok" THEN "CO" ELSE "FA" IN
       /\ store' = [store EXCEPT ![r.p] = t]
       /\ IF TwoStep THEN Move(r, "ifinish") /\ UNCHANGED idx ELSE Move(r, "close") /\ idx' = [idx EXCEPT ![r.p] = t]
  /\ ev' = NoEv
  /\ UNCHANGED <<adone, old, Proc, mu, waiter, gen, closed, call, ncalls, crashes, okstart, Hist, panicked, faults>>
\* the second step of a plan write in a two-container vault: the search record follows the plan item
RIndex(r) ==
  /\ alive /\ r.pc \in {"ibegin", "ifinish"}
  /\ idx' = [idx EXCEPT ![r.p] = store[r.p]] /\ Move(r, IF r.pc = "ibegin" THEN "invoke" ELSE "close") /\ ev' = NoEv
  /\ UNCHANGED <<store, adone, old, Proc, mu, waiter, gen, closed, call, ncalls, crashes, okstart, Hist, panicked, faults>>
\* waiter, _ := e.waiters.Get(plan.ID); close(waiter)   - by key: whatever is registered under the id
RClose(r) ==
  /\ alive /\ r.pc = "close"
  /\ LET g == waiter[r.p] IN
       IF g = 0 \/ g \in closed THEN panicked' = TRUE /\ UNCHANGED closed
       ELSE closed' = closed \cup {g} /\ UNCHANGED panicked
  /\ Move(r, "del") /\ ev' = NoEv
  /\ UNCHANGED <<Dur, old, Proc, mu, waiter, gen, call, ncalls, crashes, okstart, Hist, faults>>
RDel(r) ==
  /\ alive /\ r.pc = "del"
  /\ waiter' = [waiter EXCEPT ![r.p] = 0] /\ runners' = runners \ {r} /\ ev' = NoEv
  /\ UNCHANGED <<Dur, old, Proc, mu, gen, closed, call, ncalls, crashes, okstart, Hist, panicked, faults>>

(******************************* time, crash *******************************)
Age(p) ==
  /\ Aging /\ store[p] # "none" /\ ~old[p]
  /\ old' = [old EXCEPT ![p] = TRUE] /\ ev' = NoEv
  /\ UNCHANGED <<Dur, Proc, mu, waiter, gen, closed, runners, call, ncalls, crashes, okstart, Hist, panicked, faults>>

\* the storage is about to fail the next read of plan p (a transient fault)
Arm(p) ==
  /\ alive /\ faults[p] = 0 /\ MaxFaults > 0 /\ ncalls < MaxCalls
  /\ faults' = [faults EXCEPT ![p] = 1] /\ ev' = [ev |-> "XFault", p |-> p]
  /\ UNCHANGED <<Dur, old, Proc, mu, waiter, gen, closed, runners, call, ncalls, crashes, okstart, Hist, panicked>>

Disarm(p) ==
  /\ alive /\ faults[p] > 0
  /\ faults' = [faults EXCEPT ![p] = 0] /\ ev' = [ev |-> "XFaultClear", p |-> p]
  /\ UNCHANGED <<Dur, old, Proc, mu, waiter, gen, closed, runners, call, ncalls, crashes, okstart, Hist, panicked>>

Crash ==
  /\ alive /\ crashes < MaxCrashes
  /\ alive' = FALSE /\ crashes' = crashes + 1
  /\ runners' = {} /\ waiter' = [p \in Plans |-> 0] /\ mu' = 0 /\ call' = [c \in Callers |-> Idle]
  /\ okstart' = [p \in Plans |-> FALSE]
  \* an invocation whose result is not durable may be repeated by the next process (C09)
  /\ redo' = [p \in Plans |-> redo[p] + Cardinality({r \in runners : r.p = p /\ r.pc \in {"incall", "record"}})]
  \* a Start that returned nil whose "Running" never became durable is lost with the process: the plan is NotStarted again
  /\ lost' = [p \in Plans |-> lost[p] + Cardinality({r \in runners : r.p = p /\ r.pc = "begin"})]
  /\ ev' = NoEv
  /\ UNCHANGED <<Dur, old, recovery, gen, closed, ncalls, inv, fresh, panicked, faults>>

NewProcess ==
  /\ ~alive
  /\ \E rec \in RecoveryModes :
       \E ag \in (IF rec /\ RecAging THEN SUBSET {p \in Plans : IndexRepaired(store, idx)[p] = "RU"} ELSE {{}}) :
          /\ store' = [p \in Plans |-> IF p \in ag THEN "FA" ELSE store[p]]
          /\ idx' = [p \in Plans |-> IF p \in ag THEN "FA" ELSE IndexRepaired(store, idx)[p]]
          /\ Boot(store, IndexRepaired(store, idx), rec, ag, gen)
  /\ ev' = [ev |-> "XRestart"]
  /\ UNCHANGED <<adone, old, closed, ncalls, crashes, Hist, panicked, faults>>

Internal ==
  \/ \E c \in Callers : SubCreate(c) \/ SLock(c) \/ SChk(c) \/ SRead(c) \/ SVal(c) \/ SRun(c) \/ SUnlock(c)
                        \/ WGet(c) \/ WBlock(c) \/ RRead(c) \/ SRd(c)
  \/ \E r \in runners : RBegin(r) \/ RResume(r) \/ RRecord(r) \/ RFinish(r) \/ RIndex(r) \/ RClose(r) \/ RDel(r)
Visible ==
  \/ \E c \in Callers : Return(c)
  \/ \E r \in runners : RInvoke(r) \/ \E o \in {"ok", "fail"} : RPlugin(r, o)
Env ==
  \/ \E c \in Callers, op \in Ops, p \in Plans : Begin(c, op, p)
  \/ \E c \in Callers : WGiveUp(c)
  \/ \E p \in Plans : Age(p) \/ Arm(p) \/ Disarm(p)
  \/ Crash \/ NewProcess

Next == Internal \/ Visible \/ Env
Spec == Init /\ [][Next]_vars
FairSpec == Spec /\ WF_vars(Internal \/ Visible) /\ WF_vars(NewProcess)

(******************************** properties *******************************)
TypeOK ==
  /\ store \in [Plans -> {"none", "NS", "RU", "CO", "FA"}] /\ adone \in [Plans -> {"no", "ok", "fail"}]
  /\ mu \in {0} \cup Callers /\ \A r \in runners : r.p \in Plans
\* a plan is executed by at most one goroutine at a time
OneRunner == \A p \in Plans : Cardinality({r \in runners : r.p = p}) <= 1
\* a plan's goroutine is registered for as long as it lives
RunnerRegistered == \A r \in runners : waiter[r.p] # 0
NoPanic == ~panicked
\* C12: a plan is executed at most once - the plugin is invoked once, plus once per invocation a crash interrupted (C09)
AtMostOnce == \A p \in Plans : inv[p] <= 1 + redo[p]
\* C12: at most one Start of a plan is accepted, plus one per accepted Start that a crash wiped out before anything was durable
StartOnce == \A p \in Plans : fresh[p] <= 1 + lost[p]
\* the mutex is held exactly inside Start's critical section
MutexInv == \A c \in Callers : (mu = c) <=> (call[c].pc \in {"chk", "read", "val", "run", "unlock"} /\ call[c].op = "start")
\* C04/C12: a Wait that began after the plan was started (or resumed) in this process returns a terminal plan
WaitTruth == \A c \in Callers : (call[c].op = "wait" /\ call[c].pc = "ret" /\ call[c].ws) => call[c].res \in Terminal \cup {"err"}     \* "err": only when the storage read itself failed (faults)
\* nothing but a NotStarted, unregistered plan is ever started
StartedFromNS == [][\A c \in Callers : (call[c].pc = "run" /\ call'[c].pc = "unlock") => store[call[c].p] = "NS"]_vars
\* C12: a plan whose submission was already too old when Start was called is not started
StaleRejected == \A c \in Callers : (call[c].op = "start" /\ call[c].pc = "ret" /\ call[c].wo) => call[c].res # "ok"
\* C04: a terminal plan never changes; C08: the status never goes backwards (also across restarts)
TerminalStable == [][\A p \in Plans : Rank(store'[p]) >= Rank(store[p]) /\ (store[p] \in Terminal => store'[p] = store[p])]_vars
\* C11: a new process touches only plans stored Running, and only with recovery switched on
OnlyRunningResumed == [][~alive /\ alive' => \A r \in runners' : store[r.p] = "RU" /\ store'[r.p] = "RU" /\ recovery']_vars
\* C11: a new process changes the stored status of a plan only to close a Running one as Failed, and only with recovery on
OnlyStaleClosed == [][~alive /\ alive' => \A p \in Plans : store'[p] # store[p] => (store[p] = "RU" /\ store'[p] = "FA" /\ recovery' /\ ~\E r \in runners' : r.p = p)]_vars
\* the index lags the plan by at most the one write in progress, and never claims more than the plan
IndexLags == \A p \in Plans : Rank(idx[p]) <= Rank(store[p]) /\ (~TwoStep => idx[p] = store[p])
\* liveness: every call returns (or the process dies), every plan that was started ends
CallsReturn == \A c \in Callers : (call[c].op \notin {"idle"} /\ call[c].pc # "block") ~> (call[c].op = "idle" \/ call[c].pc = "block")
WaitsReturn == \A c \in Callers : (call[c].pc = "block") ~> (call[c].op = "idle")
PlansEnd == \A p \in Plans : (\E r \in runners : r.p = p) ~> (store[p] \in Terminal \/ ~alive)
=============================================================================
