SPECIFICATION Spec
CONSTANTS
  Ids = {"p1","p2","p3"}
  CIds = {"p1","p2"}
  ShapeNames = {"S1"}
  Ops = {"Create","Bulk"}
  Groups = {1,2}
  InitVers = {0,1,2}
  MaxVer = 2
  MaxLen = 4
  MaxUpd = 99
  Sim = FALSE
  FMax = 2
INVARIANTS TypeOK TimesDistinct RunningFound ListSound
ACTION_CONSTRAINT EmitBulk
VIEW StoreView
CHECK_DEADLOCK FALSE
