SPECIFICATION Spec
CONSTANTS
  Ids = {"p1","p3"}
  CIds = {"p1"}
  ShapeNames = {"S2","S3","S4"}
  Ops = {"Create","Update","Read","Delete"}
  Groups = {0,1}
  InitVers = {0}
  MaxVer = 2
  MaxLen = 8
  MaxUpd = 1
  Sim = FALSE
  FMax = 1
INVARIANTS TypeOK TimesDistinct RunningFound ListSound
CONSTRAINT Small
ACTION_CONSTRAINT EmitTransition
VIEW CoverView
CHECK_DEADLOCK FALSE
