----------------------------- MODULE EngineConf -----------------------------
(***************************************************************************)
(* Trace conformance (code -> model): is a trace recorded from the real    *)
(* engine a behaviour of Engine.tla?                                        *)
(*                                                                         *)
(* trace.ndjson holds ONE trace (its Config line first, carrying the plan  *)
(* shape in the model's format).  A step either consumes the next trace    *)
(* line - by an Engine step that emits exactly that event, or because the  *)
(* line is a durable write that changes nothing (the engine repeats many   *)
(* writes; the model elides them), or because the line is not modelled     *)
(* (polling reads ...) - or is a silent Engine step.  Variables that are   *)
(* not logged (channel contents, loop indices, limiter ...) are inferred   *)
(* by TLC.  Acceptance: the high-water mark of the line counter (TLC       *)
(* register 1, maintained by a CONSTRAINT) passes the last line.           *)
(* Run with -workers 1 and the depth-first queue (StateDeque).             *)
(***************************************************************************)
EXTENDS Engine

TraceLog == ndJsonDeserialize("trace.ndjson")
TraceShapes == {TraceLog[1].mshape}
AllOut == {"ok", "tr", "perm", "wrongtype", "wrongtr"}
NoneTolerated == {}

VARIABLE l
cvars == <<vars, l>>
Ev == TraceLog[l]
More == l <= Len(TraceLog)
Emitted == hist' # hist
E1 == hist'[1]

RowSet(snap) == {<<x.obj, x.st, x.natt>> : x \in ToSet(snap)}
DurSet == {<<o, dur[o].st, Len(dur[o].atts)>> : o \in DOMAIN dur}

Matches ==
  /\ Emitted /\ E1.ev = Ev.ev
  /\ CASE Ev.ev = "W" -> E1.obj = Ev.obj /\ E1.st = Ev.st /\ E1.natt = Ev.natt
       [] Ev.ev = "PStart" -> E1.obj = Ev.obj /\ E1.n = Ev.n /\ E1.ov = Ev.ov
       [] Ev.ev = "PEnd" -> E1.obj = Ev.obj /\ E1.n = Ev.n /\ (E1.out = Ev.out \/ (E1.out = "overrun" /\ Ev.out = "lateok"))
       [] Ev.ev = "WaitRet" -> RowSet(Ev.snap) = DurSet /\ Ev.reason = dreason
       [] Ev.ev = "NewProc" -> E1.running = Ev.running
       [] OTHER -> TRUE
\* a write that repeats what is already stored
Redundant == Ev.ev = "W" /\ dur[Ev.obj].st = Ev.st /\ Len(dur[Ev.obj].atts) = Ev.natt /\ UNCHANGED vars
\* (a new process that finds nothing to resume: the model goes straight to what Wait returns)
NotModelled == (Ev.ev \in {"StartCall", "StartRet", "R", "Read", "End", "ApiRet", "Diverged"} \/ (Ev.ev = "NewProc" /\ ~Ev.running)) /\ UNCHANGED vars

EngineStep == (alive /\ (Internal \/ PluginReturn \/ LateReturn)) \/ (~alive /\ NewProcess)
CNext == \/ (More /\ ((EngineStep /\ Matches) \/ Redundant \/ NotModelled) /\ l' = l + 1)
         \/ (EngineStep /\ ~Emitted /\ UNCHANGED l)
(* A trace of a process that RESUMES a plan after a crash (crash-point rebuild, SIGKILL, write failure) starts    *)
(* Config . Crash(what is on disk) . NewProc ...: the model starts dead, with exactly that durable state.          *)
IsCrashTrace == Len(TraceLog) >= 2 /\ TraceLog[2].ev = "Crash"
CrashRows == TraceLog[2].snap
RowOf(o) == CHOOSE x \in ToSet(CrashRows) : x.obj = o
CrashInit ==
  /\ sh \in ShapeSet
  /\ dur = [o \in ObjNames(sh) |-> [st |-> RowOf(o).st, atts |-> RowOf(o).atts]] /\ mem = dur
  /\ dreason = TraceLog[2].reason /\ mreason = dreason
  /\ pc = "dead" /\ cb = 1
  /\ wk = [o \in {d.obj : d \in {x \in DescsOf(sh) : x.k = "seq"}} |-> WK0]
  /\ lim = 0 /\ fails = 0 /\ li = 1
  /\ am = [o \in {d.obj : d \in {x \in DescsOf(sh) : x.k \in {"act", "cact"}}} |-> "idle"]
  /\ rn = [o \in {d.obj : d \in {x \in DescsOf(sh) : x.k = "chk"}} |-> [st |-> "idle", k |-> 0]]
  /\ cl = [sc \in 0..Len(sh.blocks) |-> "off"]
  /\ ch = [sc \in 0..Len(sh.blocks) |-> [err |-> FALSE, closed |-> FALSE, cancel |-> FALSE, started |-> FALSE]]
  /\ runs = [sc \in 0..Len(sh.blocks) |-> 0]
  /\ waiter = "none" /\ alive = FALSE /\ crashes = 1
  /\ ncall = [o \in {d.obj : d \in {x \in DescsOf(sh) : x.k \in {"act", "cact"}}} |-> 0]
  /\ fate = [o \in {d.obj : d \in {x \in DescsOf(sh) : x.k \in {"act", "cact"}}} |-> "?"]
  /\ wq = <<>> /\ aged = TraceLog[2].old /\ late = {}
  /\ obs = Observe(InitObs(ConfigOf(sh)), [ev |-> "Crash", snap |-> SnapSeq(dur), reason |-> dreason, base |-> "-", old |-> aged, recovery |-> TRUE])
  /\ bad = {} /\ hist = <<[ev |-> "none"], 0>>
  /\ l = 3
CInit == IF IsCrashTrace THEN CrashInit ELSE (Init /\ l = 2)
CSpec == CInit /\ [][CNext]_cvars

Mark == TLCGet(1) < l => TLCSet(1, l)
NotYetAccepted == TLCGet(1) <= Len(TraceLog)      \* stop exploring once the whole trace has been matched
Accepted == /\ JsonSerialize("conf.json", [lines |-> Len(TraceLog), reached |-> TLCGet(1) - 1])
            /\ TLCGet(1) = Len(TraceLog) + 1
ASSUME TLCSet(1, 0)
=============================================================================
