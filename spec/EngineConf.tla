----------------------------- MODULE EngineConf -----------------------------
(***************************************************************************)
(* Trace conformance (code -> model): is a trace recorded from the real    *)
(* engine a behaviour of Engine.tla?                                        *)
(*                                                                         *)
(* trace.ndjson holds ONE trace (its Config line first, carrying the plan  *)
(* shape in the model's format).  A step either consumes the next trace    *)
(* line - by an Engine step that emits exactly that event, or because the  *)
(* line is a durable write that changes nothing (the engine repeats many   *)
(* writes; the model elides them), or because the line is not modelled     *)
(* (polling reads ...) - or is a silent Engine step.  Variables that are   *)
(* not logged (channel contents, loop indices, limiter ...) are inferred   *)
(* by TLC.  Acceptance: the high-water mark of the line counter (TLC       *)
(* register 1, maintained by a CONSTRAINT) passes the last line.           *)
(* Run with -workers 1 and the depth-first queue (StateDeque).             *)
(***************************************************************************)
EXTENDS Engine

TraceLog == ndJsonDeserialize("trace.ndjson")
TraceShapes == {TraceLog[1].mshape}
AllOut == {"ok", "tr", "perm", "wrongtype", "wrongtr"}
NoneTolerated == {}

VARIABLE l
cvars == <<vars, l>>
Ev == TraceLog[l]
More == l <= Len(TraceLog)
Emitted == hist' # hist
E1 == hist'[1]

RowSet(snap) == {<<x.obj, x.st, x.natt>> : x \in ToSet(snap)}
DurSet == {<<o, dur[o].st, Len(dur[o].atts)>> : o \in DOMAIN dur}

Matches ==
  /\ Emitted /\ E1.ev = Ev.ev
  /\ CASE Ev.ev = "W" -> E1.obj = Ev.obj /\ E1.st = Ev.st /\ E1.natt = Ev.natt
       [] Ev.ev = "PStart" -> E1.obj = Ev.obj /\ E1.n = Ev.n
       [] Ev.ev = "PEnd" -> E1.obj = Ev.obj /\ E1.n = Ev.n /\ E1.out = Ev.out
       [] Ev.ev = "WaitRet" -> RowSet(Ev.snap) = DurSet /\ Ev.reason = dreason
       [] OTHER -> TRUE
\* a write that repeats what is already stored
Redundant == Ev.ev = "W" /\ dur[Ev.obj].st = Ev.st /\ Len(dur[Ev.obj].atts) = Ev.natt /\ UNCHANGED vars
NotModelled == Ev.ev \in {"StartCall", "StartRet", "R", "Read", "End", "ApiRet", "Diverged"} /\ UNCHANGED vars

EngineStep == (alive /\ (Internal \/ PluginReturn)) \/ (~alive /\ NewProcess)
CNext == \/ (More /\ ((EngineStep /\ Matches) \/ Redundant \/ NotModelled) /\ l' = l + 1)
         \/ (EngineStep /\ ~Emitted /\ UNCHANGED l)
CInit == Init /\ l = 2
CSpec == CInit /\ [][CNext]_cvars

Mark == TLCGet(1) < l => TLCSet(1, l)
NotYetAccepted == TLCGet(1) <= Len(TraceLog)      \* stop exploring once the whole trace has been matched
Accepted == /\ JsonSerialize("conf.json", [lines |-> Len(TraceLog), reached |-> TLCGet(1) - 1])
            /\ TLCGet(1) = Len(TraceLog) + 1
ASSUME TLCSet(1, 0)
=============================================================================
