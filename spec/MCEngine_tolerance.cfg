SPECIFICATION Spec
CONSTANTS
  ShapeSet <- ShapesTol
  SeqOutcomes <- OkPerm
  ChkOutcomes <- OkPerm
  MaxCrashes = 0
  MaxRuns = 1
  Tolerated <- NoTol
  FnOut = FALSE
  Poller = FALSE
  Aging = FALSE
  Overruns = FALSE
  Gen = "off"
INVARIANTS NoClauseViolated InvQuiescentAtRelease InvDurLagsMem
CHECK_DEADLOCK TRUE
