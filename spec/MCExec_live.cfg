\* liveness under fairness: every call returns, every started plan ends (one plan, two callers, one crash)
SPECIFICATION FairSpec
CONSTANTS
  Plans <- P1
  Callers <- C2
  MaxCalls = 4
  MaxCrashes = 1
  RecoveryModes <- BothModes
  Ops <- AllOps
  Aging = FALSE
  TwoStep = FALSE
  RecAging = TRUE
  MaxFaults = 0
INVARIANTS NoPanic
PROPERTIES CallsReturn WaitsReturn PlansEnd
CHECK_DEADLOCK FALSE
