SPECIFICATION Spec
CONSTANTS
  Ids = {"p1","p2","p3","p4"}
  CIds = {"p1","p2","p3"}
  ShapeNames = {"S1","S2","S3","S4"}
  Ops = {"Create","CreateFail","CreateIOFail","Delete","Update"}
  Groups = {0,1,2}
  InitVers = {0}
  MaxVer = 3
  MaxLen = 20
  MaxUpd = 99
  Sim = TRUE
  FMax = 1
INVARIANTS TypeOK TimesDistinct RunningFound ListSound EmitAtEnd
CHECK_DEADLOCK FALSE
