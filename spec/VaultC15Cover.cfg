SPECIFICATION Spec
CONSTANTS
  Ids = {"p1","p2","p3"}
  CIds = {"p1","p2"}
  ShapeNames = {"S1"}
  Ops = {"Create","Delete","UpdatePlan","Exists","Search","SearchNone","List"}
  Groups = {1,2}
  InitVers = {0,1}
  MaxVer = 2
  MaxLen = 8
  MaxUpd = 99
  Sim = FALSE
  FMax = 2
INVARIANTS TypeOK TimesDistinct RunningFound ListSound
ACTION_CONSTRAINT EmitTransition
VIEW StoreView
CHECK_DEADLOCK FALSE
