------------------------------ MODULE MCEngine ------------------------------
(* Model-checking configurations of Engine.tla: shape families as definitions. *)
EXTENDS Engine

NoG == [g \in GroupsAll |-> 0]
G(gs) == [g \in GroupsAll |-> IF g \in gs THEN 1 ELSE 0]
Blk(seqs, conc, tol, gs) == [g |-> G(gs), seqs |-> seqs, conc |-> conc, tol |-> tol]
Shp(pgs, blocks, retries) == [pg |-> G(pgs), blocks |-> blocks, retries |-> retries, cretries |-> 0]

\* order: up to 2 blocks x 2 sequences x 2 actions, concurrency 1..2, no checks
ShapesOrder == {Shp({}, <<Blk(<<2, 1>>, c, t, {})>>, 0) : c \in {1, 2}, t \in {0, -1}}
               \cup {Shp({}, <<Blk(<<1, 1>>, 2, 0, {}), Blk(<<2>>, 1, 0, {})>>, 0)}
\* tolerance: one block, 3-4 sequences of one action
ShapesTol == {Shp({}, <<Blk(<<1, 1, 1>>, c, t, {})>>, 0) : c \in {1, 2}, t \in {0, 1}}
             \cup {Shp({}, <<Blk(<<1, 1, 1, 1>>, 2, 0, {})>>, 0)}
\* retry: one sequence of two actions, retries 0..2
ShapesRetry == {Shp({}, <<Blk(<<2>>, 1, 0, {})>>, r) : r \in {0, 1, 2}}
\* gates: one block, one sequence, one group at plan level and one at block level
ShapesGates == {Shp(pg, <<Blk(<<1>>, 1, 0, bg)>>, 0) : pg \in {{}, {"bypass"}, {"pre"}, {"post"}, {"deferred"}, {"pre", "post", "deferred"}},
                                                       bg \in {{}, {"bypass"}, {"pre"}, {"post"}, {"deferred"}, {"pre", "post", "deferred"}}}
\* cont: continuous checks at plan or block level, two sequences
ShapesCont == {Shp(pg, <<Blk(<<1, 1>>, c, 0, bg)>>, 0) : pg \in {{}, {"cont"}}, bg \in {{}, {"cont"}, {"cont", "deferred"}}, c \in {1, 2}} \ {Shp({}, <<Blk(<<1, 1>>, c, 0, {})>>, 0) : c \in {1, 2}}
\* crash: small shapes with one crash
ShapesCrash == {Shp({}, <<Blk(<<2, 1>>, 1, 0, {})>>, 0), Shp({}, <<Blk(<<1, 1>>, 2, 0, {}), Blk(<<1>>, 1, 0, {})>>, 0),
                Shp({"pre", "deferred"}, <<Blk(<<1>>, 1, 0, {"post"})>>, 0)}
\* quick variant of cont
ShapesContQ == {Shp({"cont"}, <<Blk(<<1, 1>>, 1, 0, {})>>, 0), Shp({}, <<Blk(<<1, 1>>, 2, 0, {"cont"})>>, 0), Shp({"cont"}, <<Blk(<<1>>, 1, 0, {"cont", "deferred"})>>, 0)}
\* bigger sequence core: 3 sequences x 2 actions, retries 1
ShapesBig == {Shp({}, <<Blk(<<2, 2, 2>>, 2, t, {})>>, 1) : t \in {0, 1}}
\* check actions with a retry budget, two actions in a group
ShapesRetryChk == {[pg |-> [g \in GroupsAll |-> IF g = x THEN 2 ELSE 0], blocks |-> <<Blk(<<1>>, 1, 0, {})>>, retries |-> 0, cretries |-> 1] : x \in {"pre", "post", "bypass"}}
\* two blocks, more group combinations (incl. cont next to the other groups)
ShapesGates2 == {Shp(pg, <<Blk(<<1>>, 1, 0, bg), Blk(<<1>>, 1, 0, {})>>, 0) : pg \in {{"bypass", "pre"}, {"pre", "cont"}, {"cont", "post", "deferred"}},
                                                                             bg \in {{"bypass", "deferred"}, {"pre", "cont"}, {"cont", "post"}, {"pre", "post", "deferred"}}}
\* two crashes on the smallest shapes; one crash on shapes with checks and continuous checks
ShapesCrash2 == {Shp({}, <<Blk(<<2>>, 1, 0, {})>>, 0), Shp({}, <<Blk(<<1, 1>>, 2, 0, {})>>, 0)}
ShapesCrashChk == {Shp({"cont"}, <<Blk(<<1>>, 1, 0, {"pre"})>>, 0), Shp({"bypass"}, <<Blk(<<1>>, 1, 0, {"deferred"})>>, 0),
                   Shp({"pre"}, <<Blk(<<1, 1>>, 1, 1, {"bypass"})>>, 0),
                   Shp({}, <<Blk(<<1>>, 1, 0, {"pre", "cont"}), Blk(<<1>>, 1, 0, {})>>, 0)}
\* post-checks at both levels with a block behind them (a durably failed group fails its scope also after a restart)
ShapesCrashPost == {Shp({"post"}, <<Blk(<<1>>, 1, 0, {"post"}), Blk(<<1>>, 1, 0, {})>>, 0),
                    Shp({"deferred"}, <<Blk(<<1>>, 1, 0, {"pre", "post", "deferred"}), Blk(<<1>>, 1, 0, {})>>, 0)}
\* retries across a crash: what is durable of an action's attempts decides what the resuming process may do with it
ShapesCrashRetry == {Shp({}, <<Blk(<<2>>, 1, 0, {})>>, 1), Shp({}, <<Blk(<<1, 1>>, 2, 1, {})>>, 2)}
\* the PreChecks of a scope fail while the initial run of its ContChecks (they run side by side) is in progress: one crash
ShapesCrashPreCont == {Shp({"pre", "cont"}, <<Blk(<<1>>, 1, 0, {})>>, 0), Shp({"pre", "cont", "deferred"}, <<Blk(<<1>>, 1, 0, {"deferred"})>>, 0),
                       Shp({}, <<Blk(<<1>>, 1, 0, {"pre", "cont", "deferred"}), Blk(<<1>>, 1, 0, {})>>, 0)}
\* liveness: every plan reaches "finished" under weak fairness, also across a crash, also with continuous checks
ShapesLive == {Shp({"cont"}, <<Blk(<<1>>, 1, 0, {"pre", "cont"})>>, 0), Shp({}, <<Blk(<<1, 1>>, 2, 0, {"cont", "deferred"})>>, 0)}
ShapesLiveCrash == {Shp({"pre", "deferred"}, <<Blk(<<1>>, 1, 0, {"post"})>>, 0), Shp({}, <<Blk(<<1, 1>>, 2, 1, {})>>, 0)}
\* deeper crash exploration (thorough tier / background): two-action sequences with every block-level group, tolerance and concurrency
ShapesCrashDeep == {Shp({}, <<Blk(<<2, 1>>, 2, 1, {"pre", "cont", "post", "deferred"})>>, 0),
                    Shp({"cont", "deferred"}, <<Blk(<<2>>, 1, 0, {"cont"}), Blk(<<1>>, 1, 0, {"deferred"})>>, 0),
                    Shp({"bypass", "pre", "post"}, <<Blk(<<1, 1>>, 1, 0, {"bypass", "post"})>>, 0)}
OkPerm == {"ok", "perm"}
OkTrPerm == {"ok", "tr", "perm"}
All4 == {"ok", "tr", "perm", "wrongtype"}
OkOnly == {"ok"}
NoTol == {}
KnownRecovery == {}
\* with outcomes that change across the restart a re-run plan pre-check can fail and leave the started block Running
KnownRecoveryAny == {}
=============================================================================
