---------------------------- MODULE EngineTrace ----------------------------
(***************************************************************************)
(* Recording monitor: feeds traces recorded from the real engine           *)
(* (trace.ndjson in the working directory; many traces concatenated, each  *)
(* starting with its Config line) into Props!Observe and evaluates every   *)
(* clause at every step.  It does not stop at the first false clause: the  *)
(* set viol of <<clause, line>> pairs is accumulated, copied into a TLC    *)
(* register at every state, and written to viol.json by the postcondition, *)
(* which also checks that every line was consumed.                         *)
(***************************************************************************)
EXTENDS Props, Json

TraceLog == ndJsonDeserialize("trace.ndjson")

VARIABLES l, obs, viol
tvars == <<l, obs, viol>>

TInit == l = 1 /\ obs = EmptyObs /\ viol = {}

TStep ==
    /\ l <= Len(TraceLog)
    /\ l' = l + 1
    /\ LET e == TraceLog[l] IN
       IF e.ev = "Config"
         THEN obs' = InitObs(e) /\ UNCHANGED viol
         ELSE /\ viol' = viol \cup {<<c, l>> : c \in Violated(obs, e)}
              /\ obs' = Observe(obs, e)

TSpec == TInit /\ [][TStep]_tvars

\* self-test of Props!ClausesFor: the fast evaluation agrees with the full one at every step of the trace
FastAgrees == l <= Len(TraceLog) => (TraceLog[l].ev = "Config" \/ Violated(obs, TraceLog[l]) = ViolatedFast(obs, TraceLog[l]))

Save == TLCSet(2, viol) /\ TLCSet(1, l)
Done == /\ TLCGet(1) = Len(TraceLog) + 1
        /\ JsonSerialize("viol.json", [lines |-> Len(TraceLog), viol |-> TLCGet(2)])
ASSUME TLCSet(1, 0) /\ TLCSet(2, {})
=============================================================================
