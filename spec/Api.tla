-------------------------------- MODULE Api --------------------------------
(***************************************************************************)
(* C12.  The public API of a Workstream for ONE plan id ("known", once it  *)
(* has been submitted) and one id that was never submitted ("unknown"):    *)
(* Submit, Start, Wait, Status, Plan in any order, plus N racing Starts.   *)
(*                                                                         *)
(* The model is the reference for what Start must answer:                  *)
(*   Start(known)   returns nil exactly when the plan has been submitted   *)
(*                  and no earlier Start of it returned nil (a plan is     *)
(*                  started at most once; a running or finished plan is    *)
(*                  rejected);                                              *)
(*   N racing Starts: exactly one returns nil (none if already started);   *)
(*   Start(unknown) is rejected.                                           *)
(* Wait / Status / Plan must return (no panic, no hang); what they return  *)
(* for unknown ids belongs to C13.  TLC enumerates every history up to     *)
(* MaxLen; the harness replays each on a real Workstream, the number of    *)
(* successful Start returns per step is compared (clause C12_StartVerdict  *)
(* of Props.tla) and the recorded trace is judged by the C12 clauses.      *)
(***************************************************************************)
EXTENDS Naturals, Sequences, TLC, Json

CONSTANT MaxLen

\* "statusbrk": a Status consumer that stops after the first result; "waitto": a Wait whose context expires after 1 ms
\* (both leave the plan alone: neither changes what Start must answer, both must not disturb a running plan)
Ops == {"submit", "start", "start:unknown", "race2", "race3", "wait", "wait:unknown", "plan", "plan:unknown", "status", "status:unknown",
        "statusbrk", "waitto"}

VARIABLES submitted, started, hist
vars == <<submitted, started, hist>>

Init == submitted = FALSE /\ started = FALSE /\ hist = <<>>

IsStart(op) == op \in {"start", "race2", "race3"}
\* expected number of Start calls of this step that return nil (99 in the history: the step makes no Start call)
Expect(op) == IF IsStart(op) /\ submitted /\ ~started THEN 1 ELSE 0

Do(op) ==
  /\ Len(hist) < MaxLen
  /\ submitted' = (submitted \/ op = "submit")
  /\ started' = (started \/ (IsStart(op) /\ submitted))
  /\ hist' = Append(hist, [op |-> op, expect |-> IF IsStart(op) \/ op = "start:unknown" THEN Expect(op) ELSE 99])
Next == \E op \in Ops : Do(op)
Spec == Init /\ [][Next]_vars

\* design-level: over a whole history at most one Start is expected to succeed
RECURSIVE SumOk(_)
SumOk(h) == IF h = <<>> THEN 0 ELSE (IF Head(h).expect = 1 THEN 1 ELSE 0) + SumOk(Tail(h))
AtMostOneStart == SumOk(hist) <= 1
EmitAtEnd == (Len(hist) = MaxLen) => PrintT("CASE " \o ToJson(hist))
=============================================================================
