SPECIFICATION Spec
CONSTANTS
  ShapeSet <- ShapesOrder
  SeqOutcomes <- OkPerm
  ChkOutcomes <- OkPerm
  MaxCrashes = 0
  MaxRuns = 1
  Tolerated <- NoTol
  FnOut = FALSE
  Poller = TRUE
  Aging = FALSE
  Gen = "off"
INVARIANTS NoClauseViolated InvQuiescentAtRelease InvDurLagsMem
CHECK_DEADLOCK TRUE
