package harness

// Physical crash cross-validation (thorough tier of C09/C10): the plan runs in a CHILD PROCESS on a
// file-backed sqlite store; the child reports every durable write on its stdout; the parent kills it
// with SIGKILL when write number KillAt has been reported, reopens the store in this process,
// constructs a new Workstream on it (recovery) and records the trace exactly as for a logical
// crash point. What the logical enumeration assumes - the store after a crash is the pristine plan
// plus a prefix of the write log - is thereby checked against a real kill.

import (
	"bufio"
	"encoding/json"
	"fmt"
	"os"
	"os/exec"
	"strings"
	"testing"
	"time"

	"github.com/element-of-surprise/coercion"
	"github.com/element-of-surprise/coercion/workflow"
	"github.com/element-of-surprise/coercion/workflow/context"
	"github.com/element-of-surprise/coercion/workflow/storage"
	"github.com/element-of-surprise/coercion/workflow/storage/sqlite"
	"github.com/google/uuid"
)

type killSpec struct {
	Root string    `json:"root"`
	Scn  *Scenario `json:"scn"`
}

// reportSpy prints one line per durable write (after the write returned).
type reportSpy struct {
	storage.Vault
	n int
}

func (s *reportSpy) note() {
	s.n++
	fmt.Printf("WRITE %d\n", s.n)
	os.Stdout.Sync()
}
func (s *reportSpy) UpdateAction(ctx context.Context, a *workflow.Action) error {
	err := s.Vault.UpdateAction(ctx, a)
	s.note()
	return err
}
func (s *reportSpy) UpdateSequence(ctx context.Context, a *workflow.Sequence) error {
	err := s.Vault.UpdateSequence(ctx, a)
	s.note()
	return err
}
func (s *reportSpy) UpdateBlock(ctx context.Context, a *workflow.Block) error {
	err := s.Vault.UpdateBlock(ctx, a)
	s.note()
	return err
}
func (s *reportSpy) UpdateChecks(ctx context.Context, a *workflow.Checks) error {
	err := s.Vault.UpdateChecks(ctx, a)
	s.note()
	return err
}
func (s *reportSpy) UpdatePlan(ctx context.Context, a *workflow.Plan) error {
	err := s.Vault.UpdatePlan(ctx, a)
	s.note()
	return err
}

// TestKillChild is the child: it runs the plan on the file-backed store and reports its writes.
func TestKillChild(t *testing.T) {
	js := os.Getenv("VH_KILL_SPEC")
	if js == "" {
		t.Skip("VH_KILL_SPEC not set")
	}
	var spec killSpec
	if err := json.Unmarshal([]byte(js), &spec); err != nil {
		fatal("kill spec: %v", err)
	}
	ctx := context.Background()
	rec, _ := newRecorder("/dev/null")
	s := newSched(rec, spec.Scn, 0, 1)
	reg := mkReg(s)
	v, err := sqlite.New(ctx, spec.Root, reg)
	if err != nil {
		fatal("child sqlite: %v", err)
	}
	ws, err := coercion.New(ctx, reg, &reportSpy{Vault: v})
	if err != nil {
		fatal("child New: %v", err)
	}
	p := buildPlan(spec.Scn, 0)
	id, err := ws.Submit(ctx, p)
	if err != nil {
		fatal("child submit: %v", err)
	}
	fmt.Printf("PLANID %s\n", id)
	os.Stdout.Sync()
	if err := ws.Start(ctx, id); err != nil {
		fatal("child start: %v", err)
	}
	ws.Wait(ctx, id)
	fmt.Println("DONE")
	os.Stdout.Sync()
	time.Sleep(50 * time.Millisecond)
}

func runKill(rec *recorder, sc *Scenario) error {
	root, err := os.MkdirTemp("", "vhkill")
	if err != nil {
		return err
	}
	defer os.RemoveAll(root)
	js, _ := json.Marshal(killSpec{Root: root, Scn: sc})
	cmd := exec.Command(os.Args[0], "-test.run", "^TestKillChild$", "-test.timeout", "0")
	cmd.Env = append(os.Environ(), "VH_KILL_SPEC="+string(js), "VH_JOB=")
	out, err := cmd.StdoutPipe()
	if err != nil {
		return err
	}
	cmd.Stderr = nil
	if err := cmd.Start(); err != nil {
		return err
	}
	var id uuid.UUID
	killedAt, done := 0, false
	rd := bufio.NewScanner(out)
	deadline := time.AfterFunc(20*time.Second, func() { cmd.Process.Kill() })
	for rd.Scan() {
		line := rd.Text()
		switch {
		case strings.HasPrefix(line, "PLANID "):
			id, _ = uuid.Parse(strings.TrimPrefix(line, "PLANID "))
		case strings.HasPrefix(line, "WRITE "):
			n := 0
			fmt.Sscan(strings.TrimPrefix(line, "WRITE "), &n)
			if n >= sc.KillAt && killedAt == 0 {
				cmd.Process.Kill() // SIGKILL
				killedAt = n
			}
		case line == "DONE":
			done = true
			cmd.Process.Kill()
		}
	}
	deadline.Stop()
	cmd.Wait()
	if id == uuid.Nil {
		return fmt.Errorf("kill child never reported its plan id")
	}
	return recoverOnDisk(rec, sc, root, id, 0, killedAt, !done)
}

// recoverOnDisk is the new process after a physical death of the old one: it reopens the file-backed store,
// constructs a new Workstream on it (recovery) and records trace tr: Config, Crash (what is on disk), NewProc,
// the events of this process, WaitRet, Read.
func recoverOnDisk(rec *recorder, sc *Scenario, root string, id uuid.UUID, tr, killedAt int, killed bool) error {
	ctx := context.Background()
	s := newSched(rec, sc, tr, 2)
	defer s.close()
	reg := mkReg(s)
	v, err := sqlite.New(ctx, root, reg)
	if err != nil {
		return fmt.Errorf("reopen: %w", err)
	}
	pre, err := v.Read(ctx, id)
	if err != nil {
		return fmt.Errorf("read after kill: %w", err)
	}
	pr := &planRun{pl: 0, id: id, nm: &names{m: map[uuid.UUID]string{}}}
	pr.descs, pr.blocks = describe(pre, sc.Shape, pr.nm)
	rec.do(func() ev {
		for oid, n := range pr.nm.m {
			s.byID[oid] = objRef{0, n}
		}
		return nil
	})
	s.emit(0, func() ev {
		return ev{"ev": "Config", "objs": pr.descs, "blocks": pr.blocks, "retries": sc.Shape.Retries, "cretries": sc.Shape.CRetries, "mode": "crash",
			"tag": sc.Tag, "nplans": 1, "crashk": killedAt, "crashj": -1, "fn": sc.Fn, "killed": killed, "mshape": modelShape(sc.Shape)}
	})
	s.emit(0, func() ev {
		return ev{"ev": "Crash", "snap": snapshot(pre, pr.nm), "reason": pre.Reason.String(), "k": killedAt, "j": -1, "base": "-", "old": false, "recovery": true, "ages": 0}
	})
	sp := &spy{Vault: v, s: s, nm: map[uuid.UUID]*planRun{}}
	for oid := range pr.nm.m {
		sp.nm[oid] = pr
	}
	ws, err := coercion.New(ctx, reg, sp)
	if err != nil {
		return fmt.Errorf("recover New: %w", err)
	}
	s.emit(0, func() ev { return ev{"ev": "NewProc", "running": pre.State.Status == workflow.Running} })
	res, werr, to := waitPlan(ctx, ws, id, 5*time.Second)
	if to {
		s.emit(0, func() ev { return ev{"ev": "Hang"} })
		return errHang
	}
	s.emit(0, func() ev {
		m := ev{"ev": "WaitRet", "ok": werr == nil, "snap": snapshot(res, pr.nm), "reason": "-", "infl": s.infl[0]}
		if res != nil {
			m["reason"] = res.Reason.String()
		}
		return m
	})
	s.drain()
	time.Sleep(3 * time.Millisecond)
	res2, err2 := ws.Plan(ctx, id)
	s.emit(0, func() ev {
		m := ev{"ev": "Read", "ok": err2 == nil, "snap": snapshot(res2, pr.nm), "reason": "-"}
		if res2 != nil {
			m["reason"] = res2.Reason.String()
		}
		return m
	})
	s.emit(0, func() ev { return ev{"ev": "End"} })
	v.Close(ctx)
	return nil
}
