package harness

import (
	"encoding/json"
	"fmt"
	"os"
	"testing"
)

// Job is what the driver hands to one child process.
type Job struct {
	Out       string      `json:"out"`
	Start     int         `json:"start"`
	Scenarios []*Scenario `json:"scenarios"`
}

// TestJob is the entry point used by /verif/check: VH_JOB names a job file.
func TestJob(t *testing.T) {
	jf := os.Getenv("VH_JOB")
	if jf == "" {
		t.Skip("VH_JOB not set")
	}
	b, err := os.ReadFile(jf)
	if err != nil {
		fatal("job: %v", err)
	}
	var job Job
	if err := json.Unmarshal(b, &job); err != nil {
		fatal("job: %v", err)
	}
	rec, err := newRecorder(job.Out)
	if err != nil {
		fatal("out: %v", err)
	}
	for i := job.Start; i < len(job.Scenarios); i++ {
		sc := job.Scenarios[i]
		var err error
		switch sc.Kind {
		case "", "engine":
			err = runEngine(rec, sc)
		case "api":
			err = runAPI(rec, sc)
		case "resume":
			err = runResume(rec, sc)
		case "kill":
			err = runKill(rec, sc)
		case "failwrite":
			err = runFailWrite(rec, sc)
		case "ws":
			err = runWS(rec, sc)
		default:
			err = fmt.Errorf("unknown scenario kind %q", sc.Kind)
		}
		if err == errHang {
			fmt.Printf("SCN-HANG %d %d\n", i, sc.ID)
			os.Exit(3)
		}
		if err != nil {
			fmt.Printf("SCN-ERROR %d %d %v\n", i, sc.ID, err)
			continue
		}
		fmt.Printf("SCN-DONE %d %d\n", i, sc.ID)
	}
}
