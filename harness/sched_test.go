package harness

// Harness plugins and the scheduler that gates them.
//
// Modes:
//   free  - every call sleeps its scripted/seeded latency and returns its scripted outcome;
//   model - the scenario carries the observable event sequence of a TLC behaviour; a plugin
//           return (the only thing the harness controls) is released when every event the
//           model placed before it has been observed on the real engine; if the real engine
//           does not follow (frontier stuck while calls are blocked) the run is marked
//           diverged and finishes free-running;
//   quiet - calls block; whenever the engine has been silent for a while one blocked call,
//           chosen by the seeded generator, is released.
// Modes only steer. Verdicts come from the recorded trace.

import (
	"fmt"
	"math/rand"
	"sort"
	"strings"
	"sync/atomic"
	"time"

	"github.com/element-of-surprise/coercion/plugins"
	"github.com/element-of-surprise/coercion/workflow/context"
	"github.com/google/uuid"
	"github.com/gostdlib/base/retry/exponential"
)

type Req struct{ Tag string }
type Resp struct{ Tag string }
type WrongResp struct{ X int }

type plug struct {
	name   string
	noresp bool
	check  bool
	maxAtt int // >0: the plugin's RetryPolicy declares MaxAttempts (the action's Retries still bound the invocations)
	pol    *exponential.Policy // a RetryPolicy of its own (scenarios that offer the registry an invalid policy)
	s      *sched
}

func (p *plug) Name() string { return p.name }
func (p *plug) Execute(ctx context.Context, req any) (any, *plugins.Error) {
	return p.s.exec(ctx, req.(Req))
}
func (p *plug) ValidateReq(req any) error {
	if _, ok := req.(Req); !ok {
		return fmt.Errorf("bad req %T", req)
	}
	return nil
}
func (p *plug) Request() any { return Req{} }
func (p *plug) Response() any {
	if p.noresp {
		return nil // a plugin that declares no response type
	}
	return Resp{}
}
func (p *plug) IsCheck() bool { return p.check }
func (p *plug) RetryPolicy() exponential.Policy {
	if p.pol != nil {
		return *p.pol
	}
	return exponential.Policy{InitialInterval: time.Millisecond, Multiplier: 1.1, RandomizationFactor: 0, MaxInterval: 2 * time.Millisecond, MaxAttempts: p.maxAtt}
}
func (p *plug) Init() error { return nil }

// ModelEv is one observable event of a model behaviour (model mode).
type ModelEv struct {
	E    string `json:"e"` // S (plugin start) | E (plugin end) | W (durable write)
	Pl   int    `json:"pl"`
	O    string `json:"o"`
	N    int    `json:"n"`
	Out  string `json:"out"`
	St   string `json:"st"`
	Natt int    `json:"natt"`
}

type objRef struct {
	pl   int
	name string
}

type call struct {
	ref objRef
	n   int
	ch  chan string
	t0  time.Time
}

type sched struct {
	rec  *recorder
	scn  int
	tr   int
	ep   int
	mode string

	byID map[uuid.UUID]objRef // guarded by rec.mu

	calls   map[string]int
	blocked map[string]*call
	infl    map[int]int // per plan: calls in flight
	out     map[string][]string
	lat     map[string][]int
	latMax  int
	rnd     *rand.Rand

	evs         []ModelEv
	frontier    int
	obs, used   map[string]int
	lastW       map[string]string
	diverged    bool
	draining    bool
	lastAdvance time.Time
	lastEvent   time.Time
	stuck       time.Duration
	quiet       time.Duration
	stop        chan struct{}
	held        map[string]bool // objects whose calls are held until holdUntil is satisfied (or drain)
	holdUntil   map[string]int  // obj -> number of PStarts that must have been observed (plan 0)
	holdMax     time.Duration
	ovOpen      int64         // overrun calls still waiting for their context to be cancelled
	ovCap       time.Duration // how long an overrun call waits for the cancellation
}

func newSched(rec *recorder, sc *Scenario, tr, ep int) *sched {
	s := &sched{rec: rec, scn: sc.ID, tr: tr, ep: ep, mode: sc.Mode, byID: map[uuid.UUID]objRef{},
		calls: map[string]int{}, blocked: map[string]*call{}, infl: map[int]int{}, out: sc.Out, lat: sc.Lat,
		latMax: sc.LatMaxUs, rnd: rand.New(rand.NewSource(sc.Seed + int64(1000*tr+ep))), obs: map[string]int{}, used: map[string]int{},
		lastW: map[string]string{}, stuck: 40 * time.Millisecond, quiet: 1500 * time.Microsecond, stop: make(chan struct{}),
		held: map[string]bool{}}
	if s.mode == "" {
		s.mode = "free"
	}
	if s.latMax <= 0 {
		s.latMax = 300
	}
	if sc.QuietUs > 0 {
		s.quiet = time.Duration(sc.QuietUs) * time.Microsecond
	}
	if ep > 1 && sc.Out2 != nil {
		s.out = sc.Out2
	}
	if ep > 1 && s.mode == "model" {
		s.mode = "free"
	}
	if s.mode == "model" {
		// keep only state-changing writes of the model behaviour
		lw := map[string]string{}
		for _, e := range sc.Evs {
			if e.E == "W" {
				k := fmt.Sprintf("%d|%s", e.Pl, e.O)
				v := fmt.Sprintf("%s|%d", e.St, e.Natt)
				if lw[k] == v {
					continue
				}
				lw[k] = v
			}
			s.evs = append(s.evs, e)
		}
	}
	for _, h := range sc.Hold {
		s.held[h] = true
	}
	s.holdUntil = sc.HoldUntil
	s.holdMax = 3 * time.Second
	s.ovCap = 8 * time.Second
	if sc.TimeoutMs > 0 && sc.TimeoutMs < 5000 {
		s.ovCap = time.Duration(10*sc.TimeoutMs+2000) * time.Millisecond
	}
	s.lastAdvance = time.Now()
	s.lastEvent = time.Now()
	go s.watchdog()
	return s
}

func key(pl int, obj string) string { return fmt.Sprintf("%d|%s", pl, obj) }

func mkey(e ModelEv) string {
	switch e.E {
	case "W":
		return fmt.Sprintf("W|%d|%s|%s|%d", e.Pl, e.O, e.St, e.Natt)
	}
	return fmt.Sprintf("%s|%d|%s|%d", e.E, e.Pl, e.O, e.N)
}

// script returns the scripted element for call n of obj (last element repeats).
func script[T any](m map[string][]T, pl int, obj string, n int, def T) T {
	l, ok := m[fmt.Sprintf("%d#%s", pl, obj)]
	if !ok {
		l, ok = m[obj]
	}
	if !ok || len(l) == 0 {
		return def
	}
	if n > len(l) {
		return l[len(l)-1]
	}
	return l[n-1]
}

// emit records an event of this scheduler's trace. build runs under the recorder's mutex.
func (s *sched) emit(pl int, build func() ev) {
	s.rec.do(func() ev {
		m := build()
		if m == nil {
			return nil
		}
		if _, ok := m["pl"]; !ok {
			m["pl"] = pl
		}
		m["scn"], m["tr"], m["ep"] = s.scn, s.tr, s.ep
		s.lastEvent = time.Now()
		s.observe(m["pl"].(int), m)
		return m
	})
}

// observe feeds an emitted event to the model-mode frontier (under rec.mu).
func (s *sched) observe(pl int, m ev) {
	if s.mode != "model" || s.diverged || s.draining {
		return
	}
	var k string
	switch m["ev"] {
	case "PStart":
		k = fmt.Sprintf("S|%d|%s|%d", pl, m["obj"], m["n"])
	case "PEnd":
		k = fmt.Sprintf("E|%d|%s|%d", pl, m["obj"], m["n"])
	case "W":
		ok := key(pl, m["obj"].(string))
		v := fmt.Sprintf("%s|%d", m["st"], m["natt"])
		if s.lastW[ok] == v {
			return
		}
		s.lastW[ok] = v
		k = fmt.Sprintf("W|%d|%s|%s|%d", pl, m["obj"], m["st"], m["natt"])
	default:
		return
	}
	s.obs[k]++
	s.advance()
}

func (s *sched) advance() {
	for s.frontier < len(s.evs) {
		e := s.evs[s.frontier]
		k := mkey(e)
		if s.obs[k] > s.used[k] {
			s.used[k]++
			s.frontier++
			s.lastAdvance = time.Now()
			continue
		}
		if e.E == "E" {
			ck := fmt.Sprintf("%s#%d", key(e.Pl, e.O), e.N)
			if c, ok := s.blocked[ck]; ok {
				delete(s.blocked, ck)
				out := e.Out
				if out == "" {
					out = "ok"
				}
				c.ch <- out
				s.lastAdvance = time.Now()
			}
		}
		return
	}
}

func (s *sched) releaseAll() {
	for k, c := range s.blocked {
		if s.held[c.ref.name] && !s.draining {
			continue
		}
		delete(s.blocked, k)
		c.ch <- script(s.out, c.ref.pl, c.ref.name, c.n, "ok")
	}
}

func (s *sched) watchdog() {
	t := time.NewTicker(200 * time.Microsecond)
	defer t.Stop()
	for {
		select {
		case <-s.stop:
			return
		case <-t.C:
		}
		s.rec.do(func() ev {
			if len(s.blocked) == 0 {
				return nil
			}
			if len(s.held) > 0 && len(s.holdUntil) > 0 {
				sat := true
				for o, n := range s.holdUntil {
					if s.calls[key(0, o)] < n {
						sat = false
					}
				}
				if sat {
					s.held = map[string]bool{}
					if s.mode == "free" {
						s.releaseAll()
					}
				} else {
					for _, c := range s.blocked {
						if s.held[c.ref.name] && time.Since(c.t0) > s.holdMax {
							s.held = map[string]bool{}
							s.releaseAll()
							return ev{"ev": "HoldTimeout", "obj": c.ref.name, "scn": s.scn, "tr": s.tr, "pl": c.ref.pl, "ep": s.ep}
						}
					}
				}
			}
			if s.draining || s.diverged {
				s.releaseAll()
				return nil
			}
			switch s.mode {
			case "model":
				if time.Since(s.lastAdvance) > s.stuck {
					s.diverged = true
					s.releaseAll()
					return ev{"ev": "Diverged", "frontier": s.frontier, "of": len(s.evs), "scn": s.scn, "tr": s.tr, "pl": 0, "ep": s.ep}
				}
			case "quiet":
				if time.Since(s.lastEvent) > s.quiet {
					ks := make([]string, 0, len(s.blocked))
					for k, c := range s.blocked {
						if !s.held[c.ref.name] {
							ks = append(ks, k)
						}
					}
					if len(ks) == 0 {
						return nil
					}
					sort.Strings(ks)
					k := ks[s.rnd.Intn(len(ks))]
					c := s.blocked[k]
					delete(s.blocked, k)
					c.ch <- script(s.out, c.ref.pl, c.ref.name, c.n, "ok")
					s.lastEvent = time.Now()
				}
			}
			return nil
		})
	}
}

// drain switches to free running for the rest of the scenario (after Wait returned).
func (s *sched) drain() {
	s.rec.do(func() ev {
		s.draining = true
		s.releaseAll()
		return nil
	})
}

func (s *sched) close() { close(s.stop) }

func (s *sched) inflight(pl int) int {
	n := 0
	s.rec.do(func() ev { n = s.infl[pl]; return nil })
	return n
}

func (s *sched) exec(ctx context.Context, r Req) (any, *plugins.Error) {
	id := context.ActionID(ctx)
	var ref objRef
	c := &call{ch: make(chan string, 1)}
	gated, ov, ctxdone := false, false, false
	s.emit(-1, func() ev {
		var ok bool
		ref, ok = s.byID[id]
		if !ok {
			// fall back on the request tag ("pl#name")
			if i := strings.Index(r.Tag, "#"); i > 0 {
				fmt.Sscan(r.Tag[:i], &ref.pl)
				ref.name = r.Tag[i+1:]
			} else {
				ref = objRef{0, "unknown:" + r.Tag}
			}
		}
		k := key(ref.pl, ref.name)
		s.calls[k]++
		c.ref, c.n = ref, s.calls[k]
		gated = (s.mode == "model" || s.mode == "quiet" || s.held[ref.name]) && !s.diverged && !s.draining
		if gated {
			s.blocked[fmt.Sprintf("%s#%d", k, c.n)] = c
		}
		so := script(s.out, ref.pl, ref.name, c.n, "ok")
		ov = so == "overrun" || so == "lateok"
		if !ov {
			s.infl[ref.pl]++
		}
		c.t0 = time.Now()
		return ev{"ev": "PStart", "obj": ref.name, "n": c.n, "pl": ref.pl, "ov": ov}
	})
	var out string
	if gated {
		out = <-c.ch
	} else {
		out = script(s.out, ref.pl, ref.name, c.n, "ok")
		d := script(s.lat, ref.pl, ref.name, c.n, -1)
		if d < 0 {
			s.rec.do(func() ev { d = s.rnd.Intn(s.latMax); return nil })
		}
		if d > 0 {
			time.Sleep(time.Duration(d) * time.Microsecond)
		}
	}
	tag := fmt.Sprintf("%s@%d", ref.name, c.n)
	if out == "overrun" || out == "lateok" {
		atomic.AddInt64(&s.ovOpen, 1)
		select {
		case <-ctx.Done():
			ctxdone = true
		case <-time.After(s.ovCap):
		}
		defer atomic.AddInt64(&s.ovOpen, -1)
		if out == "lateok" {
			// a plugin that is slow to honour the cancellation: it returns a (now worthless) success while the
			// engine is already busy with the next attempt, i.e. once the next invocation of the same action has
			// started (or, when there is none, after a bounded wait)
			k := key(ref.pl, ref.name)
			for t0 := time.Now(); time.Since(t0) < 2*time.Second; time.Sleep(time.Millisecond) {
				next := false
				s.rec.do(func() ev { next = s.calls[k] > c.n; return nil })
				if next {
					break
				}
			}
			time.Sleep(5 * time.Millisecond)
		}
	}
	s.emit(ref.pl, func() ev {
		if !ov {
			s.infl[ref.pl]--
		}
		// concrete variants of one abstract outcome are logged as that outcome (the clauses and the model know the
		// abstract alphabet only), with the variant next to it
		abstract := map[string]string{"wrongptr": "wrongtype", "permwrap": "perm", "trwrap": "tr"}[out]
		if abstract == "" {
			abstract = out
		}
		return ev{"ev": "PEnd", "obj": ref.name, "n": c.n, "out": abstract, "variant": out, "rtag": tag, "ctxdone": ctxdone}
	})
	switch out {
	case "ok":
		return Resp{Tag: tag}, nil
	case "perm":
		return nil, &plugins.Error{Message: "perm " + tag, Permanent: true}
	case "permwrap": // a permanent error that wraps a retryable cause: what the plugin returned governs
		return nil, &plugins.Error{Message: "perm " + tag, Permanent: true, Wrapped: &plugins.Error{Message: "inner retryable cause"}}
	case "trwrap": // a retryable error that wraps a permanent cause: still retryable
		return nil, &plugins.Error{Message: "tr " + tag, Wrapped: &plugins.Error{Message: "inner permanent cause", Permanent: true}}
	case "wrongptr": // a pointer to the declared response type is not the declared response type
		return &Resp{Tag: tag}, nil
	case "wrongtype":
		return WrongResp{X: c.n}, nil
	case "wrongtr": // a response of the wrong type together with a retryable error
		return WrongResp{X: c.n}, &plugins.Error{Message: "tr " + tag}
	case "overrun":
		return nil, &plugins.Error{Message: "late " + tag}
	case "lateok":
		return Resp{Tag: tag}, nil
	}
	return nil, &plugins.Error{Message: "tr " + tag}
}
