package harness

// C14: row census of the sqlite store after every writing operation, and the physical crash
// experiment of the thorough tier (kill -9 of a child process during Create on a file-backed store).

import (
	"bufio"
	"fmt"
	"math/rand"
	"os"
	"os/exec"
	"path/filepath"
	"strconv"
	"strings"
	"testing"
	"time"

	"github.com/element-of-surprise/coercion/workflow/context"
	"github.com/element-of-surprise/coercion/workflow/storage/sqlite"
	"github.com/google/uuid"
	zsqlite "zombiezen.com/go/sqlite"
	"zombiezen.com/go/sqlite/sqlitex"
)

// tables of workflow/storage/sqlite/schema.go and the column that holds the owning plan's id
var vTables = [][2]string{{"plans", "id"}, {"blocks", "plan_id"}, {"checks", "plan_id"}, {"sequences", "plan_id"}, {"actions", "plan_id"}}

// vRowCounts returns, per table, the rows owned by plan id and the total number of rows.
func vRowCounts(v *sqlite.Vault, id uuid.UUID) (own, total map[string]int, err error) {
	own, total = map[string]int{}, map[string]int{}
	conn, err := v.Pool().Take(context.Background())
	if err != nil {
		return nil, nil, err
	}
	defer v.Pool().Put(conn)
	for _, t := range vTables {
		n := -1
		err = sqlitex.ExecuteTransient(conn, "SELECT COUNT(*) FROM "+t[0]+" WHERE "+t[1]+" = ?", &sqlitex.ExecOptions{
			Args:       []any{id.String()},
			ResultFunc: func(stmt *zsqlite.Stmt) error { n = stmt.ColumnInt(0); return nil }})
		if err != nil {
			return nil, nil, err
		}
		own[t[0]] = n
		m := -1
		err = sqlitex.ExecuteTransient(conn, "SELECT COUNT(*) FROM "+t[0], &sqlitex.ExecOptions{
			ResultFunc: func(stmt *zsqlite.Stmt) error { m = stmt.ColumnInt(0); return nil }})
		if err != nil {
			return nil, nil, err
		}
		total[t[0]] = m
	}
	return own, total, nil
}

// census: (sqlite) per plan id the rows in every table are exactly those of the plan the model
// holds (none for an id that does not exist), and no table holds rows of anything else.
// (cosmosdb: the fake's tables are not reachable; Exists of every id is compared instead, Read
// of every id is compared by the caller.)
func (c *vCase) census(when string, st *vStep) {
	if c.be.sq == nil {
		for _, id := range c.ids {
			ok, err := c.be.v.Exists(vCtx, c.w.planID(id))
			c.count("census_exists")
			if err != nil {
				c.bad("C14", when+"Exists failed", err.Error())
			} else if ok != c.isLive(st, id) {
				if ok {
					c.bad("C14", when+"a plan that must not exist exists", "id "+id)
				} else {
					c.bad("C14", when+"a stored plan no longer exists", "id "+id)
				}
			}
		}
		return
	}
	want := map[string]int{}
	var total map[string]int
	for _, id := range c.ids {
		own, tot, err := vRowCounts(c.be.sq, c.w.planID(id))
		c.count("census_queries")
		if err != nil {
			fatal("census: %v", err)
		}
		total = tot
		live := c.isLive(st, id)
		for _, t := range vTables {
			exp := 0
			if live {
				exp = c.live[id].rows[t[0]]
			}
			want[t[0]] += exp
			switch {
			case !live && own[t[0]] != 0:
				c.bad("C14", when+"rows of a plan that must not exist in table "+t[0], fmt.Sprintf("id %s: %d rows", id, own[t[0]]))
			case live && own[t[0]] != exp:
				c.bad("C14", when+"row count of a stored plan changed in table "+t[0], fmt.Sprintf("id %s: %d rows, expected %d", id, own[t[0]], exp))
			}
		}
	}
	for _, t := range vTables {
		if total != nil && total[t[0]] != want[t[0]] {
			c.bad("C14", when+"rows that belong to no stored plan in table "+t[0], fmt.Sprintf("%d rows, stored plans own %d", total[t[0]], want[t[0]]))
		}
	}
}

// ---------------------------------------------------------------------------------------------
// crash during Create (thorough tier): a child process creates seeded plans on a file-backed
// store and is killed at a seeded instant; the parent reopens the store and checks that every id
// the child announced is either completely readable (equal to the plan rebuilt from the same
// seed) or has no row in any table.

var vCrashShape = &vShape{PG: vGroups{"pre": 1, "post": 2, "deferred": 1},
	BL: []vBlockShape{{G: vGroups{"pre": 1, "cont": 1}, SQ: []int{2, 2}}, {G: vGroups{}, SQ: []int{3}}}}

func vCrashPlan(seed int64, round, k int) (*vWorld, *vInc) {
	w := newWorld(seed, []byte(fmt.Sprintf("crash round %d", round)))
	w.planStatus[0] = vStatusByName["NotStarted"]
	id := fmt.Sprintf("c%d", k)
	return w, w.build(id, 1, vCrashShape, 1+k%2, 0, k+1, "")
}

// TestVaultCrashChild: VH_CRASH_DIR, VH_SEED, VH_ROUND. Announces "A <k>" before and "D <k>" after each Create.
func TestVaultCrashChild(t *testing.T) {
	dir := os.Getenv("VH_CRASH_DIR")
	if dir == "" {
		t.Skip("VH_CRASH_DIR not set")
	}
	seed, _ := strconv.ParseInt(os.Getenv("VH_SEED"), 10, 64)
	round, _ := strconv.Atoi(os.Getenv("VH_ROUND"))
	v, err := sqlite.New(context.Background(), dir, vRegistry())
	if err != nil {
		fatal("child open: %v", err)
	}
	out := bufio.NewWriter(os.Stdout)
	for k := 0; k < 100000; k++ {
		_, inc := vCrashPlan(seed, round, k)
		fmt.Fprintf(out, "A %d\n", k)
		out.Flush()
		if err := v.Create(vCtx, vClone(inc.plan)); err != nil {
			fmt.Fprintf(out, "E %d %v\n", k, err)
			out.Flush()
			os.Exit(4)
		}
		fmt.Fprintf(out, "D %d\n", k)
		out.Flush()
	}
}

func TestVaultCrash(t *testing.T) {
	if os.Getenv("VH_CRASH") == "" {
		t.Skip("VH_CRASH not set")
	}
	seed, _ := strconv.ParseInt(os.Getenv("VH_SEED"), 10, 64)
	rounds, _ := strconv.Atoi(os.Getenv("VH_CRASH"))
	res := &seqResult{Kinds: map[string]int{}, Extra: map[string]any{}}
	rnd := rand.New(rand.NewSource(seed))
	base, err := os.MkdirTemp("", "vcrash")
	if err != nil {
		fatal("tmp: %v", err)
	}
	defer os.RemoveAll(base)
	complete, absent, inflightComplete, inflightAbsent := 0, 0, 0, 0
	for round := 0; round < rounds; round++ {
		dir := filepath.Join(base, fmt.Sprintf("r%d", round))
		cmd := exec.Command(os.Args[0], "-test.run", "^TestVaultCrashChild$", "-test.timeout", "0")
		cmd.Env = append(os.Environ(), "VH_CRASH_DIR="+dir, "VH_ROUND="+strconv.Itoa(round))
		stdout, _ := cmd.StdoutPipe()
		if err := cmd.Start(); err != nil {
			fatal("child: %v", err)
		}
		// kill after a seeded number of announcements plus a seeded delay inside the next Create
		afterN := 1 + rnd.Intn(12)
		delay := time.Duration(rnd.Intn(1500)) * time.Microsecond
		announced, done := []int{}, map[int]bool{}
		sc := bufio.NewScanner(stdout)
		killed := false
		childErr := ""
		for sc.Scan() {
			f := strings.Fields(sc.Text())
			if len(f) < 2 {
				continue
			}
			k, _ := strconv.Atoi(f[1])
			switch f[0] {
			case "A":
				announced = append(announced, k)
				if !killed && len(announced) >= afterN {
					killed = true
					go func() {
						time.Sleep(delay)
						cmd.Process.Kill()
					}()
				}
			case "D":
				done[k] = true
			case "E":
				childErr = sc.Text()
			}
		}
		cmd.Wait()
		if childErr != "" {
			res.add(mismatch{Case: round, Kind: "[sqlite] crash: Create of a new id failed in the child", Detail: childErr})
		}
		res.Cases++
		v, err := sqlite.New(context.Background(), dir, vRegistry())
		if err != nil {
			res.add(mismatch{Case: round, Kind: "[sqlite] crash: the store cannot be reopened after the kill", Detail: err.Error()})
			continue
		}
		for _, k := range announced {
			res.Steps++
			w, inc := vCrashPlan(seed, round, k)
			pid := w.planID(inc.id)
			own, _, err := vRowCounts(v, pid)
			if err != nil {
				fatal("census: %v", err)
			}
			rows := 0
			for _, n := range own {
				rows += n
			}
			got, rerr := v.Read(vCtx, pid)
			hist := fmt.Sprintf("round %d seed %d: kill after announcement %d + %v; plan k=%d done=%v", round, seed, afterN, delay, k, done[k])
			switch {
			case rerr == nil && got != nil:
				cmp := &vCmp{}
				cmp.plan(inc.plan, got)
				for _, d := range cmp.diffs {
					res.add(mismatch{Case: round, Kind: "[sqlite] crash: plan readable after the kill differs from the submitted one: " + d.field, Detail: d.detail, Hist: hist})
					break
				}
				for _, t := range vTables {
					if own[t[0]] != inc.rows[t[0]] {
						res.add(mismatch{Case: round, Kind: "[sqlite] crash: readable plan with wrong row count in table " + t[0], Detail: fmt.Sprintf("%d rows, expected %d", own[t[0]], inc.rows[t[0]]), Hist: hist})
					}
				}
				complete++
				if !done[k] {
					inflightComplete++
				}
			case rows != 0:
				res.add(mismatch{Case: round, Kind: "[sqlite] crash: plan not readable but rows left behind", Detail: fmt.Sprintf("%v (read: %v)", own, rerr), Hist: hist})
			default:
				if done[k] {
					res.add(mismatch{Case: round, Kind: "[sqlite] crash: a Create that had returned success is gone after the kill", Detail: fmt.Sprint(rerr), Hist: hist})
				}
				absent++
				if !done[k] {
					inflightAbsent++
				}
			}
		}
		v.Close(context.Background())
		os.RemoveAll(dir)
	}
	res.Distinct = res.Cases
	res.Extra["crash_plans_complete"] = complete
	res.Extra["crash_plans_absent"] = absent
	res.Extra["crash_inflight_complete"] = inflightComplete
	res.Extra["crash_inflight_absent"] = inflightAbsent
	writeResult(res)
}
