package harness

// Workstream histories (spec/Exec.tla, C12): API calls on TWO tiny plans of one Workstream, racing and
// background callers, and restarts: a new Workstream (with or without recovery) on a store rebuilt from a
// prefix of the durable write log. Every call is logged when it begins (XCall) and when it returns (XRet, with
// the reply); plugin entry/exit come from the scheduler. The trace is validated against Exec.tla by
// spec/ExecTrace.tla; the writes themselves are not part of that trace (readers are lock-free: a reader may see a
// write before the writer's log line exists), TLC infers them.

import (
	"fmt"
	"strings"
	"sync"
	"time"

	"github.com/element-of-surprise/coercion"
	"github.com/element-of-surprise/coercion/workflow"
	"github.com/element-of-surprise/coercion/workflow/context"
	"github.com/element-of-surprise/coercion/workflow/storage"
	"github.com/element-of-surprise/coercion/workflow/storage/sqlite"
	"github.com/google/uuid"
)

const wsPlans = 2

// lagVault is a vault whose search index lags: like the cosmosdb vault it implements storage.Recovery, and until
// Recovery has run a status search for Running plans also returns the plans in stale - plans whose terminal write
// reached the plan but not the search record before the crash (the index still lists them as Running).
type lagVault struct {
	*spy
	lmu      sync.Mutex
	stale    map[uuid.UUID]workflow.State
	failRead map[uuid.UUID]int // armed transient faults: the next reads of these plans fail
	slowRead time.Duration     // every read takes at least this long (widens the windows of racing Starts)
}

func (l *lagVault) Read(ctx context.Context, id uuid.UUID) (*workflow.Plan, error) {
	l.lmu.Lock()
	fail := l.failRead[id] > 0
	if fail {
		l.failRead[id]--
	}
	slow := l.slowRead
	l.lmu.Unlock()
	if slow > 0 {
		time.Sleep(slow)
	}
	if fail {
		return nil, fmt.Errorf("injected transient read failure")
	}
	return l.spy.Read(ctx, id)
}

func (l *lagVault) Recovery(ctx context.Context) error {
	l.lmu.Lock()
	l.stale = nil
	l.lmu.Unlock()
	return nil
}

func (l *lagVault) Search(ctx context.Context, f storage.Filters) (chan storage.Stream[storage.ListResult], error) {
	ch, err := l.spy.Search(ctx, f)
	if err != nil {
		return ch, err
	}
	l.lmu.Lock()
	extra := []storage.Stream[storage.ListResult]{}
	for _, st := range f.ByStatus {
		if st == workflow.Running {
			for id, state := range l.stale {
				cp := state
				cp.Status = workflow.Running
				extra = append(extra, storage.Stream[storage.ListResult]{Result: storage.ListResult{ID: id, Name: "p", State: &cp}})
			}
		}
	}
	l.lmu.Unlock()
	if len(extra) == 0 {
		return ch, nil
	}
	out := make(chan storage.Stream[storage.ListResult], 1)
	go func() {
		defer close(out)
		for _, e := range extra {
			out <- e
		}
		for r := range ch {
			out <- r
		}
	}()
	return out, nil
}

type wsPlan struct {
	id        uuid.UUID
	submitted bool
	submitAt  time.Time
	started   bool // a Start returned nil in the current lifetime, or recovery resumed it
	pr        *planRun
}

func stCode(p *workflow.Plan, err error) string {
	if err != nil {
		return "err"
	}
	if p == nil || p.State == nil {
		return "empty"
	}
	switch p.State.Status {
	case workflow.NotStarted:
		return "NS"
	case workflow.Running:
		return "RU"
	case workflow.Completed:
		return "CO"
	case workflow.Failed:
		return "FA"
	}
	return p.State.Status.String()
}

func runWS(rec *recorder, sc *Scenario) error {
	ctx := context.Background()
	maxSubmit := time.Duration(sc.MaxSubmitMs) * time.Millisecond
	tr := 0
	s := newSched(rec, sc, tr, 1)
	reg := mkReg(s)
	v, err := newVault(ctx, reg)
	if err != nil {
		return err
	}
	tmpl, err := newVault(ctx, reg)
	if err != nil {
		return err
	}
	nm := map[uuid.UUID]*planRun{}
	sp := &spy{Vault: v, s: s, nm: nm}
	agedRestart := false
	mkOpts := func(recovery bool) []coercion.Option {
		o := []coercion.Option{}
		if agedRestart {
			// every plan that is Running at this restart is older than the maximum: closed, not resumed (C11)
			o = append(o, coercion.WithMaxLastUpdate(time.Millisecond))
		}
		if maxSubmit > 0 {
			o = append(o, coercion.WithMaxSubmit(maxSubmit))
		}
		if !recovery {
			o = append(o, coercion.WithNoRecovery())
		}
		return o
	}
	lv := &lagVault{spy: sp, failRead: map[uuid.UUID]int{}}
	ws, err := coercion.New(ctx, reg, lv, mkOpts(true)...)
	if err != nil {
		return err
	}
	recovery := true
	s.emit(0, func() ev { return ev{"ev": "Config", "mode": "ws", "tag": sc.Tag, "recovery": true, "nplans": wsPlans} })
	plans := make([]*wsPlan, wsPlans)
	order := []int{} // submission order
	for i := range plans {
		plans[i] = &wsPlan{id: workflow.NewV7()}
	}
	var mu sync.Mutex // guards plans[*].started / ws swap against background callers
	var bg sync.WaitGroup
	nextBG := 8 // racing callers use 1..6
	hang := false

	guard := func(c int, op string, f func()) {
		defer func() {
			if r := recover(); r != nil {
				s.emit(0, func() ev { return ev{"ev": "Panic", "op": op, "msg": fmt.Sprint(r), "c": c} })
			}
		}()
		f()
	}
	stale := func(pp *wsPlan) bool {
		return pp.submitted && maxSubmit > 0 && time.Since(pp.submitAt) > maxSubmit
	}
	// one API call by caller c on plan index pi (0-based); logged
	do := func(cs *sched, cws *coercion.Workstream, c int, op string, pi int, short bool) {
		pp := plans[pi]
		oldb := stale(pp)
		cs.emit(pi, func() ev { return ev{"ev": "XCall", "c": c, "op": op, "p": pi + 1, "oldb": oldb} })
		res := "panic"
		switch op {
		case "start":
			guard(c, op, func() {
				err := cws.Start(ctx, pp.id)
				res = "rej"
				if err == nil {
					res = "ok"
					mu.Lock()
					pp.started = true
					mu.Unlock()
				}
			})
		case "wait":
			guard(c, op, func() {
				p, err, to := waitPlan(ctx, cws, pp.id, 3*time.Second)
				if to {
					res = "hang"
					mu.Lock()
					hang = true
					mu.Unlock()
					return
				}
				res = stCode(p, err)
			})
		case "waitto":
			guard(c, op, func() {
				wctx, cancel := context.WithTimeout(ctx, time.Millisecond)
				p, err := cws.Wait(wctx, pp.id)
				cancel()
				if err == context.Canceled {
					res = "cancel"
				} else {
					res = stCode(p, err)
				}
			})
		case "plan":
			guard(c, op, func() {
				p, err := cws.Plan(ctx, pp.id)
				res = stCode(p, err)
			})
		case "status":
			guard(c, op, func() {
				d := 3 * time.Second
				if short {
					d = 150 * time.Millisecond
				}
				sctx, cancel := context.WithTimeout(ctx, d)
				defer cancel()
				last, prev := "nores", "nores"
				for r := range cws.Status(sctx, pp.id, 300*time.Microsecond) {
					prev, last = last, stCode(r.Data, r.Err)
				}
				if sctx.Err() != nil && last == "err" {
					last = prev // the consumer's own deadline expired inside a read: the reply before it counts
				}
				res = last
			})
		}
		olda := stale(pp)
		cs.emit(pi, func() ev { return ev{"ev": "XRet", "c": c, "op": op, "p": pi + 1, "res": res, "olda": olda} })
	}
	quiesce := func() error {
		// let every started plan finish (unlogged), join the background callers
		for _, pp := range plans {
			mu.Lock()
			st := pp.started
			mu.Unlock()
			if st {
				if _, _, to := waitPlan(ctx, ws, pp.id, 3*time.Second); to {
					s.emit(0, func() ev { return ev{"ev": "Hang"} })
					return errHang
				}
			}
		}
		done := make(chan struct{})
		go func() { bg.Wait(); close(done) }()
		select {
		case <-done:
		case <-time.After(4 * time.Second):
			s.emit(0, func() ev { return ev{"ev": "Hang"} })
			return errHang
		}
		s.drain()
		time.Sleep(2 * time.Millisecond)
		for i := 0; i < 300; i++ {
			busy := 0
			for pi := range plans {
				busy += s.inflight(pi)
			}
			if busy == 0 {
				break
			}
			time.Sleep(time.Millisecond)
		}
		return nil
	}

	for _, op := range sc.Api {
		name, arg, _ := strings.Cut(op, ":")
		n := 0
		fmt.Sscan(arg, &n)
		switch {
		case name == "submit":
			pi := n - 1
			pp := plans[pi]
			if pp.submitted {
				continue
			}
			p := buildPlan(sc, pi)
			s.emit(pi, func() ev { return ev{"ev": "XCall", "c": 0, "op": "submit", "p": pi + 1, "oldb": false} })
			var id uuid.UUID
			var err error
			guard(0, "submit", func() { id, err = ws.Submit(ctx, p) })
			if err != nil {
				return fmt.Errorf("submit: %w", err)
			}
			pp.id, pp.submitted, pp.submitAt = id, true, time.Now()
			order = append(order, pi)
			pr := &planRun{pl: pi, id: id, nm: &names{m: map[uuid.UUID]string{}}}
			pr.descs, pr.blocks = describe(p, sc.Shape, pr.nm)
			pp.pr = pr
			rec.do(func() ev {
				for oid, nme := range pr.nm.m {
					s.byID[oid] = objRef{pi, nme}
				}
				return nil
			})
			sp.wmu.Lock()
			for oid := range pr.nm.m {
				nm[oid] = pr
			}
			sp.wmu.Unlock()
			pristine, err := v.Read(ctx, id)
			if err != nil {
				return fmt.Errorf("read pristine: %w", err)
			}
			if err := tmpl.Create(ctx, pristine); err != nil {
				return fmt.Errorf("template create: %w", err)
			}
			s.emit(pi, func() ev { return ev{"ev": "XRet", "c": 0, "op": "submit", "p": pi + 1, "res": "ok", "olda": false} })
		case name == "sleep":
			time.Sleep(time.Duration(n) * time.Millisecond)
		case strings.HasPrefix(name, "racef"):
			// k Starts arriving one shortly after the other while the storage fails the first read of the plan (a
			// transient fault) and every read is slow: the Start that fails must not let two others in together
			k := 3
			fmt.Sscan(name[5:], &k)
			pp := plans[n-1]
			lv.lmu.Lock()
			lv.failRead[pp.id] = 1
			lv.slowRead = 400 * time.Microsecond
			lv.lmu.Unlock()
			s.emit(n-1, func() ev { return ev{"ev": "XFault", "p": n} })
			var wg sync.WaitGroup
			for i := 1; i <= k; i++ {
				wg.Add(1)
				go func() {
					defer wg.Done()
					do(s, ws, i, "start", n-1, !recovery)
				}()
				time.Sleep(time.Duration(60+40*i) * time.Microsecond)
			}
			wg.Wait()
			lv.lmu.Lock()
			lv.failRead[pp.id] = 0
			lv.slowRead = 0
			lv.lmu.Unlock()
			s.emit(n-1, func() ev { return ev{"ev": "XFaultClear", "p": n} })
		case strings.HasPrefix(name, "race"):
			k := 2
			fmt.Sscan(name[4:], &k)
			var wg sync.WaitGroup
			gate := make(chan struct{})
			for i := 1; i <= k; i++ {
				wg.Add(1)
				go func() {
					defer wg.Done()
					<-gate
					do(s, ws, i, "start", n-1, !recovery)
				}()
			}
			close(gate)
			wg.Wait()
		case name == "bgwait":
			c := nextBG
			nextBG++
			bg.Add(1)
			cs, cws := s, ws
			started := make(chan struct{})
			go func() {
				defer bg.Done()
				close(started)
				do(cs, cws, c, "wait", n-1, !recovery)
			}()
			<-started
		case name == "restart" || name == "restart-norec" || name == "restart-aged" || name == "restart-norec-aged":
			if err := quiesce(); err != nil {
				return err
			}
			mu.Lock()
			h := hang
			mu.Unlock()
			if h {
				return errHang
			}
			writes := sp.writesCopy()
			k := len(writes) * n / 100
			if n >= 100 {
				k = len(writes)
			}
			s.close()
			tr++
			s = newSched(rec, sc, tr, tr+1)
			reg = mkReg(s)
			v2, err := newVault(ctx, reg)
			if err != nil {
				return err
			}
			for _, pi := range order {
				pristine, err := tmpl.Read(ctx, plans[pi].id)
				if err != nil {
					return fmt.Errorf("template read: %w", err)
				}
				if err := v2.Create(ctx, pristine); err != nil {
					return fmt.Errorf("rebuild create: %w", err)
				}
			}
			for i := 0; i < k; i++ {
				if err := writes[i].apply(ctx, v2); err != nil {
					return fmt.Errorf("rebuild apply: %w", err)
				}
			}
			// the store of the new process becomes the base of a later restart: its Create state + these k writes
			st, ad, ix := make([]string, wsPlans), make([]string, wsPlans), make([]string, wsPlans)
			stale := map[uuid.UUID]workflow.State{}
			for pi, pp := range plans {
				st[pi], ad[pi], ix[pi] = "none", "no", "none"
				if !pp.submitted {
					continue
				}
				p, err := v2.Read(ctx, pp.id)
				if err != nil {
					return fmt.Errorf("rebuild read: %w", err)
				}
				st[pi] = stCode(p, nil)
				ix[pi] = st[pi]
				// LagIdx: the crash fell between the terminal write of the plan and the write of its search record
				if sc.LagIdx && (st[pi] == "CO" || st[pi] == "FA") && (int(sc.Seed)+pi+tr)%2 == 0 {
					ix[pi] = "RU"
					stale[pp.id] = *p.State
				}
				a := p.Blocks[0].Sequences[0].Actions[0]
				if len(a.Attempts) > 0 {
					ad[pi] = "ok"
					if a.Attempts[len(a.Attempts)-1].Err != nil {
						ad[pi] = "fail"
					}
				}
			}
			recovery = name == "restart" || name == "restart-aged"
			agedRestart = name == "restart-aged" || name == "restart-norec-aged"
			aged := make([]bool, wsPlans)
			for pi := range plans {
				aged[pi] = agedRestart && recovery && st[pi] == "RU" // with recovery disabled nothing is closed either
			}
			if agedRestart {
				time.Sleep(5 * time.Millisecond)
			}
			rec.do(func() ev {
				for pi, pp := range plans {
					if pp.pr != nil {
						for oid, nme := range pp.pr.nm.m {
							s.byID[oid] = objRef{pi, nme}
						}
					}
				}
				return nil
			})
			v = v2
			sp = &spy{Vault: v2, s: s, nm: nm}
			// a restart rebuilt from a prefix keeps the remaining history reproducible: the new write log starts empty, so a
			// second restart replays the pristine plans plus the prefix taken now plus the writes of this lifetime
			base := append([]writeRec(nil), writes[:k]...)
			sp.writes = base
			rcv := recovery
			s.emit(0, func() ev { return ev{"ev": "XRestart", "st": st, "ad": ad, "idx": ix, "aged": aged, "recovery": rcv, "k": k, "of": len(writes)} })
			mu.Lock()
			for pi, pp := range plans {
				pp.started = recovery && st[pi] == "RU" && !aged[pi]
			}
			mu.Unlock()
			lv = &lagVault{spy: sp, stale: stale, failRead: map[uuid.UUID]int{}}
			ws, err = coercion.New(ctx, reg, lv, mkOpts(recovery)...)
			if err != nil {
				return fmt.Errorf("restart New: %w", err)
			}
		default:
			do(s, ws, 0, name, n-1, !recovery)
		}
		mu.Lock()
		h := hang
		mu.Unlock()
		if h {
			s.emit(0, func() ev { return ev{"ev": "Hang"} })
			return errHang
		}
	}
	if err := quiesce(); err != nil {
		return err
	}
	for pi := range plans {
		do(s, ws, 0, "plan", pi, !recovery)
	}
	s.emit(0, func() ev { return ev{"ev": "XEnd"} })
	s.close()
	return nil
}

var _ = sqlite.WithInMemory
