package harness

// Resume scenarios (C11): one store holding several plans in assorted durable states and
// ages, then a new Workstream on it. Each member plan is first executed alone on a throw-away
// Workstream to obtain its write log; its durable state in the shared store is the pristine
// plan plus the first k writes, with every time stamp shifted into the past by its age.

import (
	"fmt"
	"strings"
	"time"

	"github.com/element-of-surprise/coercion"
	"github.com/element-of-surprise/coercion/workflow"
	"github.com/element-of-surprise/coercion/workflow/context"
	"github.com/element-of-surprise/coercion/workflow/storage"
	"github.com/google/uuid"
)

type Member struct {
	Shape Shape               `json:"shape"`
	Out   map[string][]string `json:"out"`
	KPct  int                 `json:"kpct"` // crash point as a percentage of the write log (0 = never started, 100 = finished)
	AgeS  int                 `json:"ages"` // all time stamps are shifted this many seconds into the past
	// AgeMode "start": only start stamps are shifted (objects that ran for a long time and ended recently);
	// "end": only end stamps. Default: both.
	AgeMode string `json:"agemode"`
	// KWhen "blkfailed-chkrunning": the crash point is the first one at which a block is durably Failed while a check
	// group or check action is durably Running (KPct is used when the execution has no such point)
	KWhen string           `json:"kwhen"`
	Lat   map[string][]int `json:"lat"`
}

func shiftState(st workflow.State, d time.Duration, mode string) workflow.State {
	if !st.Start.IsZero() && mode != "end" {
		st.Start = st.Start.Add(-d)
	}
	if !st.End.IsZero() && mode != "start" {
		st.End = st.End.Add(-d)
	}
	return st
}

func (w writeRec) shifted(d time.Duration, mode string) writeRec {
	w.state = shiftState(w.state, d, mode)
	if len(w.attempts) > 0 {
		at := make([]*workflow.Attempt, len(w.attempts))
		for i, a := range w.attempts {
			c := *a
			if !c.Start.IsZero() && mode != "end" {
				c.Start = c.Start.Add(-d)
			}
			if !c.End.IsZero() && mode != "start" {
				c.End = c.End.Add(-d)
			}
			at[i] = &c
		}
		w.attempts = at
	}
	return w
}

type quietRec struct{}

func runResume(rec *recorder, sc *Scenario) error {
	ctx := context.Background()
	// the shared store and the scheduler of the new process
	s := newSched(rec, sc, 0, 2)
	defer s.close()
	reg := mkReg(s)
	shared, err := newVault(ctx, reg)
	if err != nil {
		return err
	}
	sp := &spy{Vault: shared, s: s, nm: map[uuid.UUID]*planRun{}}
	runs := []*planRun{}
	pres := []*workflow.Plan{}
	for pl, m := range sc.Members {
		// base run of the member alone (events discarded: recorded under a scratch recorder)
		scratchRec, err := newRecorder("/dev/null")
		if err != nil {
			return err
		}
		msc := &Scenario{ID: sc.ID, Shape: m.Shape, Out: m.Out, Lat: m.Lat, Mode: "free", Seed: sc.Seed + int64(pl), LatMaxUs: 50, ContDelayUs: 300}
		bs := newSched(scratchRec, msc, 0, 1)
		breg := mkReg(bs)
		bv, err := newVault(ctx, breg)
		if err != nil {
			return err
		}
		bsp := &spy{Vault: bv, s: bs, nm: map[uuid.UUID]*planRun{}}
		bws, err := coercion.New(ctx, breg, bsp)
		if err != nil {
			return err
		}
		p := buildPlan(msc, pl)
		id, err := bws.Submit(ctx, p)
		if err != nil {
			return fmt.Errorf("member submit: %w", err)
		}
		pr := &planRun{pl: pl, id: id, nm: &names{m: map[uuid.UUID]string{}}}
		pr.descs, pr.blocks = describe(p, m.Shape, pr.nm)
		pristine, err := bv.Read(ctx, id)
		if err != nil {
			return err
		}
		writes := []writeRec{}
		if m.KPct > 0 {
			if err := bws.Start(ctx, id); err != nil {
				return fmt.Errorf("member start: %w", err)
			}
			if _, _, to := waitPlan(ctx, bws, id, 3*time.Second); to {
				bs.close()
				return errHang
			}
			bs.drain()
			time.Sleep(2 * time.Millisecond)
			writes = bsp.writesCopy()
		}
		bs.close()
		k := len(writes) * m.KPct / 100
		if m.KPct >= 100 {
			k = len(writes)
		}
		if m.KWhen == "blkfailed-chkrunning" {
			last := map[uuid.UUID]workflow.Status{}
			for i, w := range writes {
				last[w.id] = w.state.Status
				blkFailed, chkRunning := false, false
				for id, st := range last {
					nme := pr.nm.get(id)
					isChk := false
					for _, g := range groupOrder {
						if strings.HasSuffix(nme, "."+g) || strings.Contains(nme, "."+g+".") {
							isChk = true
						}
					}
					if isChk && st == workflow.Running {
						chkRunning = true
					}
					if !isChk && strings.HasPrefix(nme, "b") && !strings.Contains(nme, ".") && st == workflow.Failed {
						blkFailed = true
					}
				}
				if blkFailed && chkRunning && last[id] == workflow.Running { // id: the plan itself is still Running
					k = i + 1
					break
				}
			}
		}
		age := time.Duration(m.AgeS) * time.Second
		pristine.SubmitTime = pristine.SubmitTime.Add(-age)
		if err := shared.Create(ctx, pristine); err != nil {
			return fmt.Errorf("shared create: %w", err)
		}
		for i := 0; i < k; i++ {
			w := writes[i].shifted(age, m.AgeMode)
			if m.AgeMode == "notchk" {
				// only the Checks objects and their actions were active recently (a long action watched by continuous checks)
				w = writes[i]
				nme := pr.nm.get(w.id)
				isChk := w.kind == "chk"
				for _, g := range groupOrder {
					if strings.Contains(nme, "."+g+".") {
						isChk = true
					}
				}
				if !isChk {
					w = w.shifted(age, "")
				}
			}
			if err := w.apply(ctx, shared); err != nil {
				return fmt.Errorf("shared apply: %w", err)
			}
		}
		pre, err := shared.Read(ctx, id)
		if err != nil {
			return err
		}
		pres = append(pres, pre)
		runs = append(runs, pr)
		rec.do(func() ev {
			for oid, n := range pr.nm.m {
				s.byID[oid] = objRef{pl, n}
			}
			return nil
		})
		for oid := range pr.nm.m {
			sp.nm[oid] = pr
		}
	}
	maxAge := time.Duration(sc.MaxAgeS) * time.Second
	if sc.MaxAgeS == 0 {
		maxAge = 30 * time.Minute
	} else if sc.MaxAgeS < 0 {
		maxAge = 0 // WithMaxLastUpdate(0): every Running plan is older than the maximum
	}
	for pl, pr := range runs {
		pre := pres[pl]
		old := false
		if pre.State.Status == workflow.Running {
			old = lastStamp(pre).Add(maxAge).Before(time.Now())
		}
		s.emit(pl, func() ev {
			return ev{"ev": "Config", "objs": pr.descs, "blocks": pr.blocks, "retries": sc.Members[pl].Shape.Retries, "cretries": sc.Members[pl].Shape.CRetries,
				"mode": "resume", "tag": sc.Tag, "nplans": len(runs), "crashk": sc.Members[pl].KPct, "crashj": -1, "fn": false, "mshape": modelShape(sc.Members[pl].Shape)}
		})
		s.emit(pl, func() ev {
			return ev{"ev": "Crash", "snap": snapshot(pre, pr.nm), "reason": pre.Reason.String(), "k": sc.Members[pl].KPct, "j": -1, "base": "-",
				"old": old, "recovery": !sc.NoRecovery, "ages": sc.Members[pl].AgeS}
		})
	}
	opts := []coercion.Option{coercion.WithMaxLastUpdate(maxAge)}
	if sc.NoRecovery {
		// options are applied in order: which one comes first must not matter
		if sc.ID%2 == 0 {
			opts = append(opts, coercion.WithNoRecovery())
		} else {
			opts = []coercion.Option{coercion.WithNoRecovery(), coercion.WithMaxLastUpdate(maxAge), coercion.WithMaxSubmit(time.Hour)}
		}
	}
	ws, err, stuck := newWS(ctx, reg, sp, opts...)
	if stuck {
		for pl := range runs {
			s.emit(pl, func() ev { return ev{"ev": "Hang"} })
		}
		return errHang
	}
	if err != nil {
		return fmt.Errorf("New on shared store: %w", err)
	}
	for pl := range runs {
		s.emit(pl, func() ev { return ev{"ev": "NewProc", "running": pres[pl].State.Status == workflow.Running} })
	}
	hang := false
	for pl, pr := range runs {
		res, werr, to := waitPlan(ctx, ws, pr.id, 3*time.Second)
		if to {
			s.emit(pl, func() ev { return ev{"ev": "Hang"} })
			hang = true
			continue
		}
		s.emit(pl, func() ev {
			m := ev{"ev": "WaitRet", "ok": werr == nil, "snap": snapshot(res, pr.nm), "reason": "-", "infl": s.infl[pl]}
			if res != nil {
				m["reason"] = res.Reason.String()
			}
			return m
		})
	}
	if hang {
		return errHang
	}
	s.drain()
	time.Sleep(5 * time.Millisecond)
	for pl, pr := range runs {
		res, err := readPlan(ctx, shared, pr.id)
		s.emit(pl, func() ev {
			m := ev{"ev": "Read", "ok": err == nil, "snap": snapshot(res, pr.nm), "reason": "-"}
			if res != nil {
				m["reason"] = res.Reason.String()
			}
			return m
		})
		s.emit(pl, func() ev { return ev{"ev": "End"} })
	}
	return nil
}

func readPlan(ctx context.Context, v storage.Vault, id uuid.UUID) (*workflow.Plan, error) {
	return v.Read(ctx, id)
}

// lastStamp is the newest start/end time stamp anywhere in the plan (what the engine's
// recovery filter looks at), computed independently here from the snapshot walk.
func lastStamp(p *workflow.Plan) time.Time {
	var last time.Time
	upd := func(st *workflow.State) {
		if st == nil {
			return
		}
		if st.Start.After(last) {
			last = st.Start
		}
		if st.End.After(last) {
			last = st.End
		}
	}
	var chk = func(c *workflow.Checks) {
		if c == nil {
			return
		}
		upd(c.State)
		for _, a := range c.Actions {
			upd(a.State)
		}
	}
	upd(p.State)
	for _, c := range []*workflow.Checks{p.BypassChecks, p.PreChecks, p.ContChecks, p.PostChecks, p.DeferredChecks} {
		chk(c)
	}
	for _, b := range p.Blocks {
		upd(b.State)
		for _, c := range []*workflow.Checks{b.BypassChecks, b.PreChecks, b.ContChecks, b.PostChecks, b.DeferredChecks} {
			chk(c)
		}
		for _, q := range b.Sequences {
			upd(q.State)
			for _, a := range q.Actions {
				upd(a.State)
			}
		}
	}
	return last
}
