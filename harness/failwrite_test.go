package harness

// Write-failure injection (C08, fail-stop): the engine treats a failed durable write as fatal (log.Fatalf), i.e. the
// process dies at that write. The plan therefore runs in a CHILD PROCESS (an ordinary TestJob with a one-scenario
// job) on a file-backed sqlite store, with a vault spy that makes durable write number FailAt fail without
// executing it. The child records its own trace; this process imports it as trace 0 (first process lifetime, with
// the WFail event where the write failed and an Exit event at the end), then reopens the store, recovers the plan
// in a new Workstream and records that as trace 1 exactly like a physical kill. Scenario shapes of this family are
// strictly sequential (concurrency 1, one action per check group, no continuous checks), so for correct code NOTHING
// can follow the failed write in the first lifetime: clause C08_FailStop.

import (
	"bufio"
	"encoding/json"
	"fmt"
	"os"
	"os/exec"
	"path/filepath"
	"strings"
	"time"

	"github.com/google/uuid"
)

func runFailWrite(rec *recorder, sc *Scenario) error {
	root, err := os.MkdirTemp("", "vhfail")
	if err != nil {
		return err
	}
	defer os.RemoveAll(root)
	store := filepath.Join(root, "store")
	if err := os.MkdirAll(store, 0o755); err != nil {
		return err
	}
	child := *sc
	child.Kind, child.Root = "engine", store
	childOut := filepath.Join(root, "child.ndjson")
	jobFile := filepath.Join(root, "job.json")
	jb, _ := json.Marshal(Job{Out: childOut, Scenarios: []*Scenario{&child}})
	if err := os.WriteFile(jobFile, jb, 0o644); err != nil {
		return err
	}
	cmd := exec.Command(os.Args[0], "-test.run", "^TestJob$", "-test.timeout", "0")
	cmd.Env = append(os.Environ(), "VH_JOB="+jobFile)
	out, err := cmd.StdoutPipe()
	if err != nil {
		return err
	}
	cmd.Stderr = nil
	if err := cmd.Start(); err != nil {
		return err
	}
	var id uuid.UUID
	finished := false
	deadline := time.AfterFunc(30*time.Second, func() { cmd.Process.Kill() })
	rd := bufio.NewScanner(out)
	for rd.Scan() {
		line := rd.Text()
		switch {
		case strings.HasPrefix(line, "PLANID "):
			id, _ = uuid.Parse(strings.TrimPrefix(line, "PLANID "))
		case strings.HasPrefix(line, "SCN-DONE"), strings.HasPrefix(line, "SCN-HANG"):
			finished = true
		}
	}
	deadline.Stop()
	werr := cmd.Wait()
	code := 0
	if werr != nil {
		code = 1
		if ee, ok := werr.(*exec.ExitError); ok && ee.ExitCode() >= 0 {
			code = ee.ExitCode()
		}
	}
	if id == uuid.Nil {
		return fmt.Errorf("failwrite child never reported its plan id")
	}
	// trace 0: the child's lifetime, as the child recorded it
	s := newSched(rec, sc, 0, 1)
	f, err := os.Open(childOut)
	if err != nil {
		s.close()
		return fmt.Errorf("child trace: %w", err)
	}
	failed := false
	lr := bufio.NewScanner(f)
	lr.Buffer(make([]byte, 1<<20), 1<<26)
	for lr.Scan() {
		var m ev
		if err := json.Unmarshal(lr.Bytes(), &m); err != nil {
			continue // a last line cut short by the death of the child
		}
		for _, k := range []string{"seq", "scn", "tr", "ep", "pl"} {
			delete(m, k)
		}
		if m["ev"] == "End" {
			continue
		}
		if m["ev"] == "WFail" {
			failed = true
		}
		s.emit(0, func() ev { return m })
	}
	f.Close()
	s.emit(0, func() ev { return ev{"ev": "Exit", "code": code, "finished": finished, "wfail": failed} })
	s.emit(0, func() ev { return ev{"ev": "End"} })
	s.close()
	if finished && !failed {
		return nil // FailAt beyond the last write: an ordinary run
	}
	// trace 1: recovery on what is on disk
	return recoverOnDisk(rec, sc, store, id, 1, max(0, sc.FailAt-1), !finished)
}
