package harness

// Recorder, naming and snapshots shared by every engine scenario.
//
// Every observable event is written as one JSON line (never containing null) carrying a
// global sequence number taken under the recorder's mutex, the scenario id (scn), the plan
// index inside the scenario (pl) and the trace index (tr; crash variants of one scenario
// are separate traces).

import (
	"encoding/json"
	"os"
	"sort"
	"sync"
	"time"

	"github.com/element-of-surprise/coercion/workflow"
	"github.com/element-of-surprise/coercion/workflow/utils/walk"
	"github.com/google/uuid"
)

type ev = map[string]any

type recorder struct {
	mu  sync.Mutex
	seq int
	f   *os.File
}

func newRecorder(path string) (*recorder, error) {
	f, err := os.OpenFile(path, os.O_CREATE|os.O_WRONLY|os.O_APPEND, 0o644)
	if err != nil {
		return nil, err
	}
	return &recorder{f: f}, nil
}

// do runs f under the recorder's mutex; if f returns an event it gets the next sequence
// number and is written out. All scheduler state is guarded by this one mutex, so the
// order of events in the file is the order in which the scheduler saw them.
func (r *recorder) do(f func() ev) {
	r.mu.Lock()
	defer r.mu.Unlock()
	m := f()
	if m == nil {
		return
	}
	r.seq++
	m["seq"] = r.seq
	b, err := json.Marshal(m)
	if err != nil {
		panic(err)
	}
	r.f.Write(append(b, '\n'))
}

// desc describes one object of a plan to the specification (Config line).
type desc struct {
	Obj string `json:"obj"`
	K   string `json:"k"` // plan blk seq act chk cact
	B   int    `json:"b"` // block number, 0 = plan level
	S   int    `json:"s"`
	A   int    `json:"a"`
	G   string `json:"g"` // group name or "-"
	N   int    `json:"n"` // number of children
}

// names maps object ids to path names for one plan.
type names struct {
	mu sync.RWMutex
	m  map[uuid.UUID]string
}

func (n *names) get(id uuid.UUID) string {
	n.mu.RLock()
	defer n.mu.RUnlock()
	return n.m[id]
}

func lastKind(a *workflow.Action) (kind string, rtag string) {
	n := len(a.Attempts)
	if n == 0 {
		return "none", ""
	}
	at := a.Attempts[n-1]
	if at.Err == nil {
		if r, ok := at.Resp.(Resp); ok {
			rtag = r.Tag
		}
		return "ok", rtag
	}
	switch {
	case at.Err.Message == "plugin execution timed out" && !at.Err.Permanent:
		return "timeout", ""
	case at.Err.Permanent && len(at.Err.Message) > 7 && at.Err.Message[:7] == "plugin(":
		if at.Resp != nil {
			return "wrongtype-kept", ""
		}
		return "wrongtype", ""
	case at.Err.Permanent:
		return "perm", errTag(at.Err.Message)
	}
	return "tr", errTag(at.Err.Message)
}

// errTag extracts the invocation tag the harness plugins put into their error messages ("tr a@2", "perm a@1").
func errTag(msg string) string {
	for i := 0; i < len(msg); i++ {
		if msg[i] == ' ' {
			return msg[i+1:]
		}
	}
	return ""
}

// attemptsOrdered reports start<=end for every attempt and non-decreasing order of attempts.
func attemptsOrdered(a *workflow.Action) bool {
	var prev time.Time
	for _, at := range a.Attempts {
		if at.End.Before(at.Start) {
			return false
		}
		if at.Start.Before(prev) {
			return false
		}
		prev = at.Start
	}
	return true
}

// attDigest is a compact digest of all attempts: one letter per attempt.
func attDigest(a *workflow.Action) string {
	s := ""
	for _, at := range a.Attempts {
		switch {
		case at.Err == nil:
			s += "o"
		case at.Err.Message == "plugin execution timed out" && !at.Err.Permanent:
			s += "x"
		case at.Err.Permanent && len(at.Err.Message) > 7 && at.Err.Message[:7] == "plugin(":
			s += "w"
		case at.Err.Permanent:
			s += "p"
		default:
			s += "t"
		}
	}
	if s == "" {
		return "-"
	}
	return s
}

// snapshot projects a plan read from storage: per object status, attempt digest and
// rank-compressed times (0 = zero time; TLC integers are 32 bit).
func snapshot(p *workflow.Plan, nm *names) []any {
	type row struct {
		m    ev
		s, e time.Time
	}
	rows := []row{}
	times := []int64{}
	add := func(obj string, st *workflow.State, extra ev) {
		m := ev{"obj": obj, "st": "nil", "natt": 0, "last": "none", "aok": true, "dig": "-", "rtag": ""}
		for k, v := range extra {
			m[k] = v
		}
		r := row{m: m}
		if st != nil {
			m["st"] = st.Status.String()
			r.s, r.e = st.Start, st.End
			if !st.Start.IsZero() {
				times = append(times, st.Start.UnixNano())
			}
			if !st.End.IsZero() {
				times = append(times, st.End.UnixNano())
			}
		}
		rows = append(rows, r)
	}
	if p == nil {
		return []any{}
	}
	for it := range walk.Plan(p) {
		switch v := it.Value.(type) {
		case *workflow.Plan:
			add("p", v.State, nil)
		case *workflow.Block:
			add(nm.get(v.ID), v.State, nil)
		case *workflow.Sequence:
			add(nm.get(v.ID), v.State, nil)
		case *workflow.Checks:
			add(nm.get(v.ID), v.State, nil)
		case *workflow.Action:
			k, rt := lastKind(v)
			add(nm.get(v.ID), v.State, ev{"natt": len(v.Attempts), "last": k, "aok": attemptsOrdered(v), "dig": attDigest(v), "rtag": rt})
		}
	}
	sort.Slice(times, func(i, j int) bool { return times[i] < times[j] })
	rank := map[int64]int{}
	for _, t := range times {
		if _, ok := rank[t]; !ok {
			rank[t] = len(rank) + 1
		}
	}
	out := make([]any, 0, len(rows))
	for _, r := range rows {
		r.m["s"], r.m["e"] = 0, 0
		if !r.s.IsZero() {
			r.m["s"] = rank[r.s.UnixNano()]
		}
		if !r.e.IsZero() {
			r.m["e"] = rank[r.e.UnixNano()]
		}
		out = append(out, r.m)
	}
	return out
}
