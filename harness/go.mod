module verifharness

go 1.24.0

require (
	github.com/Azure/azure-sdk-for-go/sdk/data/azcosmos v1.2.0
	github.com/element-of-surprise/coercion v0.0.0
	github.com/go-json-experiment/json v0.0.0-20250211222650-7564cc53b040
	github.com/google/uuid v1.6.0
	github.com/gostdlib/base v0.0.0-20250328165134-6931dc0137f3
	zombiezen.com/go/sqlite v1.4.0
)

require (
	github.com/Azure/azure-sdk-for-go/sdk/azcore v1.17.0 // indirect
	github.com/Azure/azure-sdk-for-go/sdk/internal v1.10.0 // indirect
	github.com/Azure/retry v0.0.0-20250221010952-92c9290cea0f // indirect
	github.com/andybalholm/brotli v1.1.1 // indirect
	github.com/beorn7/perks v1.0.1 // indirect
	github.com/brunoga/deep v1.2.4 // indirect
	github.com/cenkalti/backoff/v4 v4.3.0 // indirect
	github.com/cespare/xxhash/v2 v2.3.0 // indirect
	github.com/davecgh/go-spew v1.1.2-0.20180830191138-d8f796af33cc // indirect
	github.com/dustin/go-humanize v1.0.1 // indirect
	github.com/emicklei/go-restful/v3 v3.12.1 // indirect
	github.com/fxamacker/cbor/v2 v2.7.0 // indirect
	github.com/go-logr/logr v1.4.2 // indirect
	github.com/go-logr/stdr v1.2.2 // indirect
	github.com/go-openapi/jsonpointer v0.21.0 // indirect
	github.com/go-openapi/jsonreference v0.21.0 // indirect
	github.com/go-openapi/swag v0.23.0 // indirect
	github.com/gofiber/fiber/v2 v2.52.6 // indirect
	github.com/gogo/protobuf v1.3.2 // indirect
	github.com/golang/protobuf v1.5.4 // indirect
	github.com/google/gnostic-models v0.6.9 // indirect
	github.com/google/go-cmp v0.7.0 // indirect
	github.com/google/gofuzz v1.2.0 // indirect
	github.com/grpc-ecosystem/grpc-gateway/v2 v2.26.3 // indirect
	github.com/jedib0t/go-pretty/v6 v6.6.6 // indirect
	github.com/josharian/intern v1.0.0 // indirect
	github.com/json-iterator/go v1.1.12 // indirect
	github.com/klauspost/compress v1.17.11 // indirect
	github.com/kylelemons/godebug v1.1.0 // indirect
	github.com/mailru/easyjson v0.9.0 // indirect
	github.com/mattn/go-colorable v0.1.14 // indirect
	github.com/mattn/go-isatty v0.0.20 // indirect
	github.com/mattn/go-runewidth v0.0.16 // indirect
	github.com/modern-go/concurrent v0.0.0-20180306012644-bacd9c7ef1dd // indirect
	github.com/modern-go/reflect2 v1.0.2 // indirect
	github.com/munnerz/goautoneg v0.0.0-20191010083416-a7dc8b61c822 // indirect
	github.com/pkg/errors v0.9.1 // indirect
	github.com/prometheus/client_golang v1.20.5 // indirect
	github.com/prometheus/client_model v0.6.1 // indirect
	github.com/prometheus/common v0.62.0 // indirect
	github.com/prometheus/procfs v0.15.1 // indirect
	github.com/remyoudompheng/bigfft v0.0.0-20230129092748-24d4a6f8daec // indirect
	github.com/rivo/uniseg v0.4.7 // indirect
	github.com/sanity-io/litter v1.5.6 // indirect
	github.com/shirou/gopsutil/v4 v4.25.1 // indirect
	github.com/spf13/afero v1.12.0 // indirect
	github.com/tidwall/pretty v1.2.1 // indirect
	github.com/tklauser/go-sysconf v0.3.14 // indirect
	github.com/tklauser/numcpus v0.9.0 // indirect
	github.com/valyala/bytebufferpool v1.0.0 // indirect
	github.com/valyala/fasthttp v1.58.0 // indirect
	github.com/valyala/tcplisten v1.0.0 // indirect
	github.com/x448/float16 v0.8.4 // indirect
	go.opentelemetry.io/auto/sdk v1.1.0 // indirect
	go.opentelemetry.io/contrib/instrumentation/host v0.59.0 // indirect
	go.opentelemetry.io/contrib/instrumentation/runtime v0.59.0 // indirect
	go.opentelemetry.io/otel v1.35.0 // indirect
	go.opentelemetry.io/otel/exporters/otlp/otlptrace v1.34.0 // indirect
	go.opentelemetry.io/otel/exporters/otlp/otlptrace/otlptracegrpc v1.34.0 // indirect
	go.opentelemetry.io/otel/exporters/prometheus v0.56.0 // indirect
	go.opentelemetry.io/otel/exporters/stdout/stdouttrace v1.34.0 // indirect
	go.opentelemetry.io/otel/metric v1.35.0 // indirect
	go.opentelemetry.io/otel/sdk v1.35.0 // indirect
	go.opentelemetry.io/otel/sdk/metric v1.34.0 // indirect
	go.opentelemetry.io/otel/trace v1.35.0 // indirect
	go.opentelemetry.io/proto/otlp v1.5.0 // indirect
	golang.org/x/exp v0.0.0-20250210185358-939b2ce775ac // indirect
	golang.org/x/net v0.35.0 // indirect
	golang.org/x/oauth2 v0.27.0 // indirect
	golang.org/x/sys v0.30.0 // indirect
	golang.org/x/term v0.29.0 // indirect
	golang.org/x/text v0.22.0 // indirect
	golang.org/x/time v0.10.0 // indirect
	google.golang.org/genproto/googleapis/api v0.0.0-20250303144028-a0af3efb3deb // indirect
	google.golang.org/genproto/googleapis/rpc v0.0.0-20250303144028-a0af3efb3deb // indirect
	google.golang.org/grpc v1.71.0 // indirect
	google.golang.org/protobuf v1.36.5 // indirect
	gopkg.in/evanphx/json-patch.v4 v4.12.0 // indirect
	gopkg.in/inf.v0 v0.9.1 // indirect
	gopkg.in/yaml.v3 v3.0.1 // indirect
	k8s.io/api v0.32.1 // indirect
	k8s.io/apimachinery v0.32.1 // indirect
	k8s.io/client-go v0.32.1 // indirect
	k8s.io/klog/v2 v2.130.1 // indirect
	k8s.io/kube-openapi v0.0.0-20241212222426-2c72e554b1e7 // indirect
	k8s.io/utils v0.0.0-20241210054802-24370beab758 // indirect
	modernc.org/libc v1.61.13 // indirect
	modernc.org/mathutil v1.7.1 // indirect
	modernc.org/memory v1.8.2 // indirect
	modernc.org/sqlite v1.35.0 // indirect
	sigs.k8s.io/json v0.0.0-20241014173422-cfa47c3a1cc8 // indirect
	sigs.k8s.io/structured-merge-diff/v4 v4.5.0 // indirect
	sigs.k8s.io/yaml v1.4.0 // indirect
)

replace github.com/element-of-surprise/coercion => /repo
