package harness

// C15: Exists / Search / List replies and stream termination; for cosmosdb, where the package's
// fake client evaluates only part of a query, an interpreter of the generated query text.

import (
	"context"
	"fmt"
	"sort"
	"strings"
	"time"

	"github.com/Azure/azure-sdk-for-go/sdk/data/azcosmos"
	"github.com/element-of-surprise/coercion/workflow"
	"github.com/element-of-surprise/coercion/workflow/storage"
	"github.com/element-of-surprise/coercion/workflow/storage/cosmosdb"
	"github.com/google/uuid"
)

const vDrainTimeout = 5 * time.Second

// vDrain reads a result stream to its end; closed=false when it did not close in time.
func vDrain(ch chan storage.Stream[storage.ListResult]) (ids []uuid.UUID, errs []string, closed bool) {
	ids, _, errs, closed = vDrainFull(ch)
	return ids, errs, closed
}

func vDrainFull(ch chan storage.Stream[storage.ListResult]) (ids []uuid.UUID, full []storage.ListResult, errs []string, closed bool) {
	tm := time.NewTimer(vDrainTimeout)
	defer tm.Stop()
	for {
		select {
		case e, ok := <-ch:
			if !ok {
				return ids, full, errs, true
			}
			if e.Err != nil {
				errs = append(errs, e.Err.Error())
			} else {
				ids = append(ids, e.Result.ID)
				full = append(full, e.Result)
			}
			if len(ids)+len(errs) > 10000 {
				return ids, full, errs, false
			}
		case <-tm.C:
			return ids, full, errs, false
		}
	}
}

func (c *vCase) exists(id string, want bool) {
	got, err := c.be.v.Exists(vCtx, c.w.planID(id))
	c.count("exists")
	switch {
	case err != nil:
		c.bad("C15", "Exists returned an error", err.Error())
	case got && !want:
		c.bad("C15", "Exists is true for a plan that does not exist", "id "+id)
	case !got && want:
		c.bad("C15", "Exists is false for a stored plan", "id "+id)
	}
}

// searchNone: a Search without any filter value. Whatever it answers (the code refuses it), a stream it returns must be
// closed, and the vault must go on answering: the next operation (an Exists, given three seconds) must terminate.
func (c *vCase) searchNone() {
	if c.stuck || c.gaveUp("Search (no filter)") {
		return
	}
	var ch chan storage.Stream[storage.ListResult]
	var err error
	decided := c.guarded(func() { ch, err = c.be.v.Search(vCtx, storage.Filters{}) })
	c.count("searches_without_filter")
	if !decided {
		return
	}
	if err == nil && ch != nil {
		tm := time.NewTimer(3 * time.Second)
		defer tm.Stop()
	loop:
		for {
			select {
			case _, ok := <-ch:
				if !ok {
					break loop
				}
			case <-tm.C:
				c.bad("C15", "Search without a filter: result stream is never closed", "")
				c.stuck = true
				return
			}
		}
	}
	done := make(chan error, 1)
	ctx, cancel := context.WithTimeout(vCtx, 3*time.Second)
	defer cancel()
	probe := uuid.New()
	if len(c.ids) > 0 {
		probe = c.w.planID(c.ids[0])
	}
	go func() {
		_, e := c.be.v.Exists(ctx, probe)
		done <- e
	}()
	select {
	case e := <-done:
		if e != nil && ctx.Err() != nil {
			c.bad("C15", "the vault stops answering after a Search without a filter", "Exists: "+e.Error())
			c.stuck = true
		}
	case <-time.After(5 * time.Second):
		c.bad("C15", "the vault stops answering after a Search without a filter", "Exists did not return")
		c.stuck = true
	}
}

func (c *vCase) names(ids []uuid.UUID) []string {
	rev := map[uuid.UUID]string{}
	for _, id := range c.ids {
		rev[c.w.planID(id)] = id
	}
	out := make([]string, 0, len(ids))
	for _, u := range ids {
		if n, ok := rev[u]; ok {
			out = append(out, n)
		} else {
			out = append(out, "?"+u.String())
		}
	}
	return out
}

func vSameSeq(a, b []string) bool {
	if len(a) != len(b) {
		return false
	}
	for i := range a {
		if a[i] != b[i] {
			return false
		}
	}
	return true
}

func vSet(a []string) map[string]bool {
	m := map[string]bool{}
	for _, x := range a {
		m[x] = true
	}
	return m
}

func vSameSet(a, b []string) bool {
	x, y := vSet(a), vSet(b)
	if len(x) != len(y) || len(a) != len(b) {
		return false
	}
	for k := range x {
		if !y[k] {
			return false
		}
	}
	return true
}

func vSubset(a, b []string) bool {
	y := vSet(b)
	for _, k := range a {
		if !y[k] {
			return false
		}
	}
	return len(vSet(a)) == len(a)
}

func (c *vCase) filters(f vFilter) storage.Filters {
	var out storage.Filters
	for _, id := range f.I {
		out.ByIDs = append(out.ByIDs, c.w.planID(id))
	}
	for _, g := range f.G {
		out.ByGroupIDs = append(out.ByGroupIDs, c.w.group(g))
	}
	for _, s := range f.S {
		out.ByStatus = append(out.ByStatus, vStatusByName[s])
	}
	return out
}

func vFilterString(f vFilter) string {
	return fmt.Sprintf("ByIDs=%v ByGroupIDs=%v ByStatus=%v", f.I, f.G, f.S)
}

// diffKind classifies how a result list differs from the expected one.
func vDiffKind(want, got []string) string {
	switch {
	case vSameSeq(want, got):
		return ""
	case vSameSet(want, got):
		return "is not ordered newest submission first"
	case len(got) < len(want) && vSubset(got, want):
		return "misses matching plans"
	case vSubset(want, got):
		return "contains plans that do not match"
	}
	return "returns the wrong plans"
}

// vStuckLimit: after this many streams of one operation that never closed on one backend the
// replay process stops calling that operation on that backend (each one costs the full time-out);
// the skipped calls are counted in the evidence.
const vStuckLimit = 3

func (c *vCase) gaveUp(what string) bool {
	if c.run.stats["never_closed_"+c.be.kind+"_"+what] >= vStuckLimit {
		c.count("skipped_after_never_closing_" + c.be.kind + "_" + what)
		return true
	}
	return false
}

func (c *vCase) drain(what, arg string, ch chan storage.Stream[storage.ListResult], err error) ([]string, bool) {
	if err != nil {
		c.bad("C15", what+" returned an error", arg+": "+err.Error())
		return nil, false
	}
	if ch == nil {
		c.bad("C15", what+" returned no stream", arg)
		return nil, false
	}
	ids, full, errs, closed := vDrainFull(ch)
	c.count("streams_drained")
	// what a result says about a plan is what Read says about it: the group and the status are the keys Search filters
	// on (a search record that carries another group or status is found, or missed, by the wrong searches)
	for i, r := range full {
		if i >= 3 {
			break
		}
		got, rerr := c.be.v.Read(vCtx, r.ID)
		if rerr != nil || got == nil {
			continue // a listed plan that cannot be read is reported by the comparison of the id lists
		}
		if r.GroupID != got.GroupID {
			c.bad("C15", what+": a result carries a group id that is not the stored one", fmt.Sprintf("%s: Read says %v, the result %v", arg, got.GroupID, r.GroupID))
		}
		if got.State != nil && (r.State == nil || r.State.Status != got.State.Status) {
			rs := "no state"
			if r.State != nil {
				rs = r.State.Status.String()
			}
			c.bad("C15", what+": a result carries a status that is not the stored one", fmt.Sprintf("%s: Read says %v, the result %s", arg, got.State.Status, rs))
		}
		c.count("result_fields_compared")
	}
	if !closed {
		c.bad("C15", what+": the result stream is never closed", fmt.Sprintf("%s: %d results, then nothing for %v", arg, len(ids), vDrainTimeout))
		c.stuck = true
		c.count("never_closed_" + c.be.kind + "_" + what)
		return nil, false
	}
	if len(errs) > 0 {
		c.bad("C15", what+": the result stream delivered an error", arg+": "+errs[0])
		return nil, false
	}
	return c.names(ids), true
}

func (c *vCase) search(st *vStep, f vFilter, want []string) {
	if c.gaveUp("Search") {
		return
	}
	sf := c.filters(f)
	arg := vFilterString(f)
	var ch chan storage.Stream[storage.ListResult]
	var err error
	decided := c.guarded(func() { ch, err = c.be.v.Search(vCtx, sf) })
	c.count("searches")
	var got []string
	ok := false
	if decided {
		got, ok = c.drain("Search", arg, ch, err)
	} else {
		c.count("cosmos_fake_undecided")
	}
	if ok {
		if c.be.kind == "sqlite" {
			if k := vDiffKind(want, got); k != "" {
				c.bad("C15", "Search "+k+" ("+vFilterShape(f)+")", fmt.Sprintf("%s: expected %v, got %v", arg, want, got))
			}
		} else {
			// the fake client honours only @ids (no group / status predicate, no ordering, nothing without ids)
			live := []string{}
			for _, id := range f.I {
				if c.isLive(st, id) {
					live = append(live, id)
				}
			}
			switch {
			case len(f.I) == 0:
				c.count("cosmos_fake_undecided")
			case len(f.G) == 0 && len(f.S) == 0:
				if !vSameSet(want, got) {
					c.bad("C15", "Search by ids over the fake client returns the wrong plans", fmt.Sprintf("%s: expected %v, got %v", arg, want, got))
				}
			default:
				if !vSubset(want, got) || !vSubset(got, live) {
					c.bad("C15", "Search over the fake client returns the wrong plans", fmt.Sprintf("%s: expected at least %v and at most %v, got %v", arg, want, live, got))
				}
			}
		}
	}
	if c.be.kind == "cosmosdb" && !c.stuck {
		c.cosmosQuery(st, f, sf, want)
	}
	c.abandoned("Search", arg, func(ctx context.Context) (chan storage.Stream[storage.ListResult], error) {
		return c.be.v.Search(ctx, sf)
	})
}

// abandoned: a caller that cancels its context before it has read the stream. Whatever the stream still delivers
// (results, an error entry), it must be closed eventually. Tried for every 7th stream operation of a replay process.
func (c *vCase) abandoned(what, arg string, call func(ctx context.Context) (chan storage.Stream[storage.ListResult], error)) {
	c.run.stats["abandon_turn"]++
	if c.run.stats["abandon_turn"]%7 != 0 || c.stuck || c.gaveUp(what+" (abandoned)") {
		return
	}
	ctx, cancel := context.WithCancel(vCtx)
	var ch chan storage.Stream[storage.ListResult]
	var err error
	decided := c.guarded(func() { ch, err = call(ctx) })
	cancel()
	if !decided || err != nil || ch == nil {
		return
	}
	c.count("streams_abandoned")
	tm := time.NewTimer(2 * time.Second)
	defer tm.Stop()
	for {
		select {
		case _, ok := <-ch:
			if !ok {
				return
			}
		case <-tm.C:
			c.bad("C15", what+": the result stream is never closed after the caller's context was cancelled", arg)
			c.count("never_closed_" + c.be.kind + "_" + what + " (abandoned)")
			return
		}
	}
}

func vFilterShape(f vFilter) string {
	p := []string{}
	if len(f.I) > 0 {
		p = append(p, fmt.Sprintf("%d ids", len(f.I)))
	}
	if len(f.G) > 0 {
		p = append(p, fmt.Sprintf("%d groups", len(f.G)))
	}
	if len(f.S) > 0 {
		p = append(p, fmt.Sprintf("%d statuses", len(f.S)))
	}
	return strings.Join(p, ", ")
}

// listedIDs: the model ids List(0) returns.
func (c *vCase) listedIDs() (map[string]bool, bool) {
	var ch chan storage.Stream[storage.ListResult]
	var err error
	if !c.guarded(func() { ch, err = c.be.v.List(vCtx, 0) }) || err != nil || ch == nil {
		return nil, false
	}
	out := map[string]bool{}
	rev := map[uuid.UUID]string{}
	for _, id := range c.ids {
		rev[c.w.planID(id)] = id
	}
	tm := time.NewTimer(3 * time.Second)
	defer tm.Stop()
	for {
		select {
		case r, ok := <-ch:
			if !ok {
				return out, true
			}
			if r.Err != nil {
				return nil, false
			}
			out[rev[r.Result.ID]] = true
		case <-tm.C:
			return nil, false
		}
	}
}

func (c *vCase) list(st *vStep, n int, want []string) {
	if c.gaveUp("List") {
		return
	}
	var ch chan storage.Stream[storage.ListResult]
	var err error
	if !c.guarded(func() { ch, err = c.be.v.List(vCtx, n) }) {
		c.count("cosmos_fake_undecided")
		return
	}
	c.count("lists")
	arg := fmt.Sprintf("limit %d", n)
	got, ok := c.drain("List", arg, ch, err)
	if c.be.kind == "sqlite" || n <= 0 {
		c.abandoned("List", arg, func(ctx context.Context) (chan storage.Stream[storage.ListResult], error) { return c.be.v.List(ctx, n) })
	}
	if !ok {
		return
	}
	if c.be.kind == "sqlite" {
		if k := vDiffKind(want, got); k != "" {
			c.bad("C15", "List "+k, fmt.Sprintf("%s: expected %v, got %v", arg, want, got))
		}
		return
	}
	// fake client: limit honoured, order not
	live := []string{}
	for id := range st.S {
		live = append(live, id)
	}
	sort.Strings(live)
	switch {
	case len(got) != len(want):
		c.bad("C15", "List over the fake client returns the wrong number of plans", fmt.Sprintf("%s: expected %d of %v, got %v", arg, len(want), live, got))
	case !vSubset(got, live):
		c.bad("C15", "List over the fake client returns the wrong plans", fmt.Sprintf("%s: stored %v, got %v", arg, live, got))
	}
}

// ---------------------------------------------------------------------------------------------
// interpreter of the subset of the Cosmos SQL the reader generates:
//   SELECT ... FROM c WHERE <expr> [ORDER BY c.submitTime DESC|ASC]
//   expr   := term { OR term }        term := factor { AND factor }
//   factor := ( expr ) | ARRAY_CONTAINS(@param, c.field) | c.field = @param
// evaluated against the documents of the model store (plus, for every stored plan, a twin in
// another swarm that must never be returned). Anything outside the subset => inconclusive.

type vDoc struct {
	name   string
	fields map[string]any
	t      int
}

type vQP struct {
	toks []string
	pos  int
	par  map[string]any
	err  error
}

func vTokens(s string) []string {
	var out []string
	i := 0
	for i < len(s) {
		ch := s[i]
		switch {
		case ch == ' ' || ch == '\n' || ch == '\t':
			i++
		case ch == '(' || ch == ')' || ch == ',' || ch == '=':
			out = append(out, string(ch))
			i++
		default:
			j := i
			for j < len(s) && !strings.ContainsRune(" \n\t(),=", rune(s[j])) {
				j++
			}
			out = append(out, s[i:j])
			i = j
		}
	}
	return out
}

func (p *vQP) peek() string {
	if p.pos < len(p.toks) {
		return p.toks[p.pos]
	}
	return ""
}
func (p *vQP) next() string { t := p.peek(); p.pos++; return t }
func (p *vQP) expect(t string) {
	if got := p.next(); !strings.EqualFold(got, t) && p.err == nil {
		p.err = fmt.Errorf("expected %q, found %q", t, got)
	}
}

type vExpr func(d *vDoc) (bool, error)

func (p *vQP) expr() vExpr {
	l := p.term()
	for strings.EqualFold(p.peek(), "OR") {
		p.next()
		a, b := l, p.term()
		l = func(d *vDoc) (bool, error) {
			x, e := a(d)
			if e != nil {
				return false, e
			}
			y, e := b(d)
			return x || y, e
		}
	}
	return l
}

func (p *vQP) term() vExpr {
	l := p.factor()
	for strings.EqualFold(p.peek(), "AND") {
		p.next()
		a, b := l, p.factor()
		l = func(d *vDoc) (bool, error) {
			x, e := a(d)
			if e != nil {
				return false, e
			}
			y, e := b(d)
			return x && y, e
		}
	}
	return l
}

func vField(d *vDoc, name string) (any, error) {
	if !strings.HasPrefix(name, "c.") {
		return nil, fmt.Errorf("not a field: %q", name)
	}
	v, ok := d.fields[name[2:]]
	if !ok {
		return nil, fmt.Errorf("unknown field %q", name)
	}
	return v, nil
}

func (p *vQP) param(name string) (any, error) {
	v, ok := p.par[name]
	if !ok {
		return nil, fmt.Errorf("query parameter %q is not supplied", name)
	}
	return v, nil
}

func vScalarEq(a, b any) (bool, error) {
	switch x := a.(type) {
	case string:
		if y, ok := b.(string); ok {
			return x == y, nil
		}
	case uuid.UUID:
		if y, ok := b.(uuid.UUID); ok {
			return x == y, nil
		}
	case int64:
		switch y := b.(type) {
		case int64:
			return x == y, nil
		case int:
			return x == int64(y), nil
		case workflow.Status:
			return x == int64(y), nil
		}
	}
	return false, fmt.Errorf("cannot compare %T with %T", a, b)
}

func (p *vQP) factor() vExpr {
	t := p.next()
	switch {
	case t == "(":
		e := p.expr()
		p.expect(")")
		return e
	case strings.EqualFold(t, "ARRAY_CONTAINS"):
		p.expect("(")
		par := p.next()
		p.expect(",")
		field := p.next()
		p.expect(")")
		return func(d *vDoc) (bool, error) {
			pv, err := p.param(par)
			if err != nil {
				return false, err
			}
			fv, err := vField(d, field)
			if err != nil {
				return false, err
			}
			list, ok := pv.([]uuid.UUID)
			if !ok {
				return false, fmt.Errorf("parameter %s is %T, not a list of ids", par, pv)
			}
			for _, x := range list {
				if eq, err := vScalarEq(fv, x); err != nil {
					return false, err
				} else if eq {
					return true, nil
				}
			}
			return false, nil
		}
	case strings.HasPrefix(t, "c."):
		p.expect("=")
		par := p.next()
		if !strings.HasPrefix(par, "@") && p.err == nil {
			p.err = fmt.Errorf("expected a parameter after %s =, found %q", t, par)
		}
		return func(d *vDoc) (bool, error) {
			pv, err := p.param(par)
			if err != nil {
				return false, err
			}
			fv, err := vField(d, t)
			if err != nil {
				return false, err
			}
			return vScalarEq(fv, pv)
		}
	}
	if p.err == nil {
		p.err = fmt.Errorf("unexpected token %q", t)
	}
	return func(*vDoc) (bool, error) { return false, p.err }
}

// vEvalQuery returns the names of the matching documents in the order the query asks for;
// ordered=false when the text has no ORDER BY c.submitTime DESC.
func vEvalQuery(q string, params []azcosmos.QueryParameter, docs []*vDoc) (res []string, ordered bool, err error) {
	toks := vTokens(q)
	w := -1
	for i, t := range toks {
		if strings.EqualFold(t, "WHERE") {
			w = i
			break
		}
	}
	if w < 0 || len(toks) < 3 || !strings.EqualFold(toks[0], "SELECT") {
		return nil, false, fmt.Errorf("no SELECT ... WHERE")
	}
	end := len(toks)
	for i := w; i < len(toks)-1; i++ {
		if strings.EqualFold(toks[i], "ORDER") && strings.EqualFold(toks[i+1], "BY") {
			end = i
			break
		}
	}
	p := &vQP{toks: toks[w+1 : end], par: map[string]any{}}
	for _, qp := range params {
		p.par[qp.Name] = qp.Value
	}
	e := p.expr()
	if p.err == nil && p.pos != len(p.toks) {
		p.err = fmt.Errorf("trailing tokens %v", p.toks[p.pos:])
	}
	if p.err != nil {
		return nil, false, p.err
	}
	var hit []*vDoc
	for _, d := range docs {
		ok, err := e(d)
		if err != nil {
			return nil, false, err
		}
		if ok {
			hit = append(hit, d)
		}
	}
	order := toks[end:]
	switch {
	case len(order) == 0:
	case len(order) == 4 && strings.EqualFold(order[2], "c.submitTime") && strings.EqualFold(order[3], "DESC"):
		ordered = true
		sort.SliceStable(hit, func(i, j int) bool { return hit[i].t > hit[j].t })
	case len(order) >= 3 && strings.EqualFold(order[2], "c.submitTime") && (len(order) == 3 || strings.EqualFold(order[3], "ASC")):
		sort.SliceStable(hit, func(i, j int) bool { return hit[i].t < hit[j].t })
		ordered = true
	default:
		return nil, false, fmt.Errorf("ORDER BY clause outside the subset: %v", order)
	}
	for _, d := range hit {
		res = append(res, d.name)
	}
	return res, ordered, nil
}

// cosmosQuery evaluates the query text the reader builds for the filters against the model store.
func (c *vCase) cosmosQuery(st *vStep, f vFilter, sf storage.Filters, want []string) {
	var q string
	var params []azcosmos.QueryParameter
	func() {
		defer func() {
			if r := recover(); r != nil {
				c.bad("C15", "panic in buildSearchQuery", fmt.Sprint(r))
			}
		}()
		q, params = cosmosdb.VerifBuildSearchQuery(sf)
	}()
	if q == "" {
		return
	}
	var docs []*vDoc
	ids := make([]string, 0, len(st.S))
	for id := range st.S {
		ids = append(ids, id)
	}
	sort.Strings(ids)
	for _, id := range ids {
		inc := c.live[id]
		if inc == nil {
			continue
		}
		status, ok := c.w.planStatus[st.S[id]["plan"]]
		if !ok {
			panic("harness: plan version without status")
		}
		t := int(inc.plan.SubmitTime.Sub(c.w.t0) / c.w.dt)
		mk := func(name, swarm string, pid uuid.UUID) *vDoc {
			return &vDoc{name: name, t: t, fields: map[string]any{"swarm": swarm, "id": pid, "groupID": inc.plan.GroupID, "stateStatus": int64(status),
				"name": inc.plan.Name, "descr": inc.plan.Descr}}
		}
		docs = append(docs, mk(id, "swarm", inc.plan.ID), mk("foreign-"+id, "another swarm", inc.plan.ID))
	}
	got, ordered, err := vEvalQuery(q, params, docs)
	if err != nil {
		c.count("cosmos_query_inconclusive")
		if _, seen := c.run.res.Extra["cosmos_query_inconclusive_example"]; !seen {
			c.run.res.Extra["cosmos_query_inconclusive_example"] = fmt.Sprintf("%v: %s", err, q)
		}
		return
	}
	c.count("cosmos_queries_interpreted")
	arg := vFilterString(f)
	for _, g := range got {
		if strings.HasPrefix(g, "foreign-") {
			c.bad("C15", "Search query text matches plans of another swarm ("+vFilterShape(f)+")", fmt.Sprintf("%s: %s", arg, q))
			return
		}
	}
	k := ""
	if !ordered {
		if !vSameSet(want, got) {
			k = vDiffKind(want, got)
		} else if len(want) > 1 {
			k = "is not ordered newest submission first"
		}
	} else {
		k = vDiffKind(want, got)
	}
	if k != "" {
		c.bad("C15", "Search query text "+k+" ("+vFilterShape(f)+")", fmt.Sprintf("%s: expected %v, query gives %v: %s", arg, want, got, q))
	}
}
