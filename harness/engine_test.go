package harness

// Engine scenarios: build a plan from an abstract shape, run it on the real engine through
// a recording vault spy and the gated plugins, record the trace, and (optionally) enumerate
// crash points by rebuilding the store from the recorded write log.

import (
	"github.com/gostdlib/base/retry/exponential"
	"fmt"
	"os"
	"sync"
	"sync/atomic"
	"time"

	"github.com/element-of-surprise/coercion"
	"github.com/element-of-surprise/coercion/plugins/registry"
	"github.com/element-of-surprise/coercion/workflow"
	"github.com/element-of-surprise/coercion/workflow/context"
	"github.com/element-of-surprise/coercion/workflow/storage"
	"github.com/element-of-surprise/coercion/workflow/storage/sqlite"
	"github.com/element-of-surprise/coercion/workflow/utils/walk"
	"github.com/google/uuid"
)

type Shape struct {
	PG       map[string]int `json:"pg"`
	Blocks   []BlockShape   `json:"blocks"`
	Retries  int            `json:"retries"`
	CRetries int            `json:"cretries"`
}
type BlockShape struct {
	G    map[string]int `json:"g"`
	Seqs []int          `json:"seqs"`
	Conc int            `json:"conc"`
	EdUs int            `json:"ed"` // Block.EntranceDelay in microseconds
	XdUs int            `json:"xd"` // Block.ExitDelay in microseconds
	Tol  int            `json:"tol"`
}

type Scenario struct {
	ID           int                 `json:"id"`
	Kind         string              `json:"kind"`
	Shape        Shape               `json:"shape"`
	Mode         string              `json:"mode"`
	Out          map[string][]string `json:"out"`
	Out2         map[string][]string `json:"out2"` // outcomes in recovering processes (nil: same as Out)
	Lat          map[string][]int    `json:"lat"`
	LatMaxUs     int                 `json:"latmax"`
	QuietUs      int                 `json:"quiet"`
	Seed         int64               `json:"seed"`
	Evs          []ModelEv           `json:"evs"`
	NPlans       int                 `json:"nplans"`
	Poll         bool                `json:"poll"`
	PollStatus   bool                `json:"pollstatus"` // the polling reader uses Workstream.Status (the streaming API) instead of Plan
	SlowStoreUs  int                 `json:"slowstore"`
	ContDelayUs  int                 `json:"contdelay"`
	TimeoutMs    int                 `json:"timeoutms"`
	Crash        string              `json:"crash"` // "", "all", "sample"
	CrashMax     int                 `json:"crashmax"`
	Crash2Max    int                 `json:"crash2max"` // >0: second crash during recovery, that many (k,j) pairs per k
	Hold         []string            `json:"hold"`      // objects whose calls are held until HoldUntil is satisfied
	HoldUntil    map[string]int      `json:"holduntil"` // obj -> number of PStarts that must have been observed
	WaitMs       int                 `json:"waitms"`
	Tag          string              `json:"tag"`
	Fn           bool                `json:"fn"` // outcomes are a function of the action alone (C10 same outcome)
	Api          []string            `json:"api"`
	ApiExpect    []int               `json:"apiexpect"` // per op: expected number of Start calls returning nil (99: none made)
	Members      []Member            `json:"members"`
	NoRecovery   bool                `json:"norecovery"`
	MaxAgeS      int                 `json:"maxages"`
	KillAt       int                 `json:"killat"`
	CancelStart  bool                `json:"cancelstart"` // the context given to Start is cancelled as soon as Start has returned
	MaxSubmitMs  int                 `json:"maxsubmitms"`
	NoRespPlugin bool                `json:"noresp"`
	FailAt       int                 `json:"failat"` // >0: the FailAt-th durable write of the run fails (not executed, error returned)
	// FailKind / FailNth: instead of a position, the FailNth-th write of a kind fails. A kind is "<object kind>/<status>",
	// with "+att" appended for an action that is written Running with attempts (the write of an attempt's result):
	// "act/Running", "act/Running+att", "act/Completed", "seq/Running", "blk/Failed", "chk/Completed", "plan/Completed" ...
	FailKind string `json:"failkind"`
	FailNth  int    `json:"failnth"`
	Root     string `json:"root"` // non-empty: file-backed sqlite store in this directory
	MaxAttPlugin bool `json:"maxattplugin"`
	// BadPolicy: the registry is offered a plugin with an invalid RetryPolicy ("negrand", "zerointerval", "mult1", "bigrand").
	// It must refuse it; if it accepts it, the plan of the scenario uses that plugin - and must not take the process down.
	BadPolicy string `json:"badpolicy"`
	bpOK      bool
	NegRetries bool `json:"negretries"` // actions are submitted with Retries -1 / -2: "less than none" is none (Shape.Retries stays 0)
	LagIdx   bool   `json:"lagidx"` // ws histories: at a restart the search index may still list a finished plan as Running

	curTr, curK int
	baseStatus  string
}

var groupOrder = []string{"bypass", "pre", "cont", "post", "deferred"}

func groupPtr(p *workflow.Plan, b *workflow.Block, g string) **workflow.Checks {
	if b == nil {
		switch g {
		case "bypass":
			return &p.BypassChecks
		case "pre":
			return &p.PreChecks
		case "cont":
			return &p.ContChecks
		case "post":
			return &p.PostChecks
		}
		return &p.DeferredChecks
	}
	switch g {
	case "bypass":
		return &b.BypassChecks
	case "pre":
		return &b.PreChecks
	case "cont":
		return &b.ContChecks
	case "post":
		return &b.PostChecks
	}
	return &b.DeferredChecks
}

// modelShape is the shape in the format of spec/Engine.tla (every group key present).
func modelShape(sh Shape) ev {
	full := func(g map[string]int) ev {
		m := ev{}
		for _, k := range groupOrder {
			m[k] = g[k]
		}
		return m
	}
	blocks := []any{}
	for _, b := range sh.Blocks {
		conc := b.Conc
		if conc < 1 {
			conc = 1
		}
		blocks = append(blocks, ev{"g": full(b.G), "seqs": b.Seqs, "conc": conc, "tol": min(b.Tol, len(b.Seqs))})
	}
	return ev{"pg": full(sh.PG), "blocks": blocks, "retries": sh.Retries, "cretries": sh.CRetries}
}

func (sc *Scenario) timeout() time.Duration {
	if sc.TimeoutMs > 0 && sc.TimeoutMs < 5000 {
		return 0 // injected after validation
	}
	if sc.TimeoutMs >= 5000 {
		return time.Duration(sc.TimeoutMs) * time.Millisecond
	}
	return 0
}

func buildPlan(sc *Scenario, pl int) *workflow.Plan {
	sh := sc.Shape
	delay := 200 * time.Microsecond
	if sc.ContDelayUs > 0 {
		delay = time.Duration(sc.ContDelayUs) * time.Microsecond
	} else if sc.ContDelayUs == -2 {
		delay = -time.Millisecond // a negative Delay: cannot be waited for, the checks run back to back as well
	} else if sc.ContDelayUs < 0 {
		delay = 0 // Checks.Delay unset: the continuous checks run back to back
	}
	seqPlugin := "act"
	if sc.NoRespPlugin {
		seqPlugin = "actnr" // sequence actions use the plugin that declares no response type
	}
	if sc.MaxAttPlugin {
		seqPlugin = "actma" // ... the plugin whose RetryPolicy declares MaxAttempts 6
	}
	if sc.bpOK {
		seqPlugin = "actbp" // the plugin with the invalid RetryPolicy that the registry accepted
	}
	mk := func(prefix string, n int) *workflow.Checks {
		c := &workflow.Checks{Delay: delay}
		for i := 1; i <= n; i++ {
			nm := fmt.Sprintf("%s.a%d", prefix, i)
			cr := sh.CRetries
			if sc.NegRetries && cr == 0 {
				cr = -1
			}
			c.Actions = append(c.Actions, &workflow.Action{Name: nm, Descr: nm, Plugin: "chk", Req: Req{Tag: fmt.Sprintf("%d#%s", pl, nm)}, Timeout: sc.timeout(), Retries: cr})
		}
		return c
	}
	p := &workflow.Plan{Name: "p", Descr: fmt.Sprintf("scn %d plan %d", sc.ID, pl)}
	for _, g := range groupOrder {
		if n := sh.PG[g]; n > 0 {
			*groupPtr(p, nil, g) = mk("p."+g, n)
		}
	}
	for bi, gb := range sh.Blocks {
		b := &workflow.Block{Name: fmt.Sprintf("b%d", bi+1), Descr: "b", Concurrency: gb.Conc, ToleratedFailures: gb.Tol,
			EntranceDelay: time.Duration(gb.EdUs) * time.Microsecond, ExitDelay: time.Duration(gb.XdUs) * time.Microsecond}
		for _, g := range groupOrder {
			if n := gb.G[g]; n > 0 {
				*groupPtr(p, b, g) = mk(b.Name+"."+g, n)
			}
		}
		for si, na := range gb.Seqs {
			sq := &workflow.Sequence{Name: fmt.Sprintf("%s.s%d", b.Name, si+1), Descr: "s"}
			for ai := 1; ai <= na; ai++ {
				nm := fmt.Sprintf("%s.a%d", sq.Name, ai)
				retries := sh.Retries
				if sc.NegRetries && retries == 0 {
					retries = -1 - ai%2
				}
				sq.Actions = append(sq.Actions, &workflow.Action{Name: nm, Descr: nm, Plugin: seqPlugin, Req: Req{Tag: fmt.Sprintf("%d#%s", pl, nm)}, Retries: retries, Timeout: sc.timeout()})
			}
			b.Sequences = append(b.Sequences, sq)
		}
		p.Blocks = append(p.Blocks, b)
	}
	return p
}

// describe fills the id -> name map and returns the Config descriptors.
func describe(p *workflow.Plan, sh Shape, nm *names) ([]desc, []any) {
	descs := []desc{}
	nm.mu.Lock()
	defer nm.mu.Unlock()
	addChecks := func(c *workflow.Checks, prefix, g string, b int) {
		if c == nil {
			return
		}
		nm.m[c.ID] = prefix + "." + g
		descs = append(descs, desc{Obj: prefix + "." + g, K: "chk", B: b, G: g, N: len(c.Actions)})
		for i, a := range c.Actions {
			nm.m[a.ID] = a.Name
			descs = append(descs, desc{Obj: a.Name, K: "cact", B: b, G: g, A: i + 1})
		}
	}
	nm.m[p.ID] = "p"
	descs = append(descs, desc{Obj: "p", K: "plan", G: "-", N: len(p.Blocks)})
	for _, g := range groupOrder {
		addChecks(*groupPtr(p, nil, g), "p", g, 0)
	}
	blocks := []any{}
	for bi, b := range p.Blocks {
		nm.m[b.ID] = b.Name
		descs = append(descs, desc{Obj: b.Name, K: "blk", B: bi + 1, G: "-", N: len(b.Sequences)})
		conc := sh.Blocks[bi].Conc
		if conc < 1 {
			conc = 1
		}
		// a tolerance of more failures than there are sequences is recorded as "all of them" (TLC integers are 32 bit)
		blocks = append(blocks, ev{"b": bi + 1, "conc": conc, "tol": min(sh.Blocks[bi].Tol, len(b.Sequences)), "nseq": len(b.Sequences)})
		for _, g := range groupOrder {
			addChecks(*groupPtr(p, b, g), b.Name, g, bi+1)
		}
		for si, sq := range b.Sequences {
			nm.m[sq.ID] = sq.Name
			descs = append(descs, desc{Obj: sq.Name, K: "seq", B: bi + 1, S: si + 1, G: "-", N: len(sq.Actions)})
			for ai, a := range sq.Actions {
				nm.m[a.ID] = a.Name
				descs = append(descs, desc{Obj: a.Name, K: "act", B: bi + 1, S: si + 1, A: ai + 1, G: "-"})
			}
		}
	}
	return descs, blocks
}

// writeRec is one durable write, kept so that the store can be rebuilt at any crash point.
type writeRec struct {
	kind     string
	id       uuid.UUID
	state    workflow.State
	attempts []*workflow.Attempt
	reason   workflow.FailureReason
	seq      int // recorder sequence number of the W event
}

func (w writeRec) apply(ctx context.Context, v storage.Vault) error {
	st := w.state
	switch w.kind {
	case "plan":
		return v.UpdatePlan(ctx, &workflow.Plan{ID: w.id, State: &st, Reason: w.reason})
	case "blk":
		return v.UpdateBlock(ctx, &workflow.Block{ID: w.id, State: &st})
	case "seq":
		return v.UpdateSequence(ctx, &workflow.Sequence{ID: w.id, State: &st})
	case "chk":
		return v.UpdateChecks(ctx, &workflow.Checks{ID: w.id, State: &st})
	}
	return v.UpdateAction(ctx, &workflow.Action{ID: w.id, State: &st, Attempts: w.attempts})
}

// spy wraps the vault: one mutex is held across the real call and the log line, so the order
// of W events is the commit order. Declared outside the module; embedding promotes the
// interface's unexported method.
type spy struct {
	storage.Vault
	s      *sched
	nm     map[uuid.UUID]*planRun // plan id / object id -> plan run
	wmu    sync.Mutex
	slow   time.Duration
	writes []writeRec
	failAt int // >0: the failAt-th write returns an error instead of being executed
	// failKind, failNth: the failNth-th write of that kind fails (see Scenario.FailKind)
	failKind          string
	failNth, failSeen int
}

func (s *spy) w(kind string, id uuid.UUID, st *workflow.State, a *workflow.Action, reason workflow.FailureReason, call func() error) error {
	if s.slow > 0 {
		time.Sleep(s.slow)
	}
	s.wmu.Lock()
	defer s.wmu.Unlock()
	if s.failKind != "" && st != nil {
		label := kind + "/" + st.Status.String()
		if a != nil && st.Status == workflow.Running && len(a.Attempts) > 0 {
			label += "+att"
		}
		if label == s.failKind {
			s.failSeen++
			if s.failSeen == s.failNth {
				s.failAt = len(s.writes) + 1
			}
		}
	}
	if s.failAt > 0 && len(s.writes)+1 == s.failAt {
		s.failAt = -1
		s.failKind = ""
		pl, obj := 0, "unknown"
		if pr := s.nm[id]; pr != nil {
			pl, obj = pr.pl, pr.nm.get(id)
		}
		m := ev{"ev": "WFail", "k": kind, "obj": obj, "st": "nil", "pl": pl}
		if st != nil {
			m["st"] = st.Status.String()
		}
		s.s.emit(pl, func() ev { return m })
		return fmt.Errorf("injected write failure")
	}
	err := call()
	pr := s.nm[id]
	pl, obj := 0, "unknown"
	if pr != nil {
		pl, obj = pr.pl, pr.nm.get(id)
	}
	m := ev{"ev": "W", "k": kind, "obj": obj, "st": "nil", "natt": 0, "last": "none", "rtag": "", "aok": true, "dig": "-", "reason": "-", "err": err != nil, "pl": pl}
	rec := writeRec{kind: kind, id: id, reason: reason}
	if st != nil {
		m["st"] = st.Status.String()
		rec.state = *st
	}
	if a != nil {
		k, rt := lastKind(a)
		m["natt"], m["last"], m["rtag"], m["aok"], m["dig"] = len(a.Attempts), k, rt, attemptsOrdered(a), attDigest(a)
		rec.attempts = append([]*workflow.Attempt(nil), a.Attempts...)
	}
	if kind == "plan" {
		m["reason"] = reason.String()
	}
	s.s.emit(pl, func() ev { return m })
	rec.seq = m["seq"].(int)
	s.writes = append(s.writes, rec)
	return err
}

func (s *spy) UpdateAction(ctx context.Context, a *workflow.Action) error {
	return s.w("act", a.ID, a.State, a, 0, func() error { return s.Vault.UpdateAction(ctx, a) })
}
func (s *spy) UpdateSequence(ctx context.Context, a *workflow.Sequence) error {
	return s.w("seq", a.ID, a.State, nil, 0, func() error { return s.Vault.UpdateSequence(ctx, a) })
}
func (s *spy) UpdateBlock(ctx context.Context, a *workflow.Block) error {
	return s.w("blk", a.ID, a.State, nil, 0, func() error { return s.Vault.UpdateBlock(ctx, a) })
}
func (s *spy) UpdateChecks(ctx context.Context, a *workflow.Checks) error {
	return s.w("chk", a.ID, a.State, nil, 0, func() error { return s.Vault.UpdateChecks(ctx, a) })
}
func (s *spy) UpdatePlan(ctx context.Context, a *workflow.Plan) error {
	return s.w("plan", a.ID, a.State, nil, a.Reason, func() error { return s.Vault.UpdatePlan(ctx, a) })
}

type planRun struct {
	pl     int
	id     uuid.UUID
	nm     *names
	descs  []desc
	blocks []any
}

func newVault(ctx context.Context, reg *registry.Register) (*sqlite.Vault, error) {
	return sqlite.New(ctx, "", reg, sqlite.WithInMemory())
}

func mkReg(s *sched) *registry.Register {
	reg := registry.New()
	reg.MustRegister(&plug{name: "act", s: s})
	reg.MustRegister(&plug{name: "chk", check: true, s: s})
	reg.MustRegister(&plug{name: "actnr", noresp: true, s: s})
	reg.MustRegister(&plug{name: "actma", maxAtt: 6, s: s})
	return reg
}

// submit performs what Workstream.Submit does; when a sub-floor timeout is wanted (overrun
// scenarios) the timeout is set after validation and the plan is created through the
// vault's public Create.
func submit(ctx context.Context, ws *coercion.Workstream, v storage.Vault, reg *registry.Register, sc *Scenario, p *workflow.Plan) (uuid.UUID, error) {
	if sc.TimeoutMs <= 0 || sc.TimeoutMs >= 5000 {
		return ws.Submit(ctx, p)
	}
	for it := range walk.Plan(p) {
		if a, ok := it.Value.(*workflow.Action); ok {
			a.SetRegister(reg)
		}
	}
	if err := workflow.Validate(p); err != nil {
		return uuid.Nil, err
	}
	for it := range walk.Plan(p) {
		if d, ok := it.Value.(interface{ Defaults() }); ok {
			d.Defaults()
		}
		if a, ok := it.Value.(*workflow.Action); ok {
			a.Timeout = time.Duration(sc.TimeoutMs) * time.Millisecond
		}
	}
	p.SubmitTime = time.Now().UTC()
	if err := v.Create(ctx, p); err != nil {
		return uuid.Nil, err
	}
	return p.ID, nil
}

type waitRes struct {
	p   *workflow.Plan
	err error
}

func waitPlan(ctx context.Context, ws *coercion.Workstream, id uuid.UUID, d time.Duration) (*workflow.Plan, error, bool) {
	ch := make(chan waitRes, 1)
	go func() { p, e := ws.Wait(ctx, id); ch <- waitRes{p, e} }()
	select {
	case r := <-ch:
		return r.p, r.err, false
	case <-time.After(d):
		return nil, nil, true
	}
}

var errHang = fmt.Errorf("hang")

// offerBadPolicy offers the registry a plugin whose RetryPolicy is invalid; true if the registry took it.
func offerBadPolicy(reg *registry.Register, s *sched, kind string) bool {
	p := exponential.Policy{InitialInterval: time.Millisecond, Multiplier: 1.1, RandomizationFactor: 0, MaxInterval: 2 * time.Millisecond}
	switch kind {
	case "negrand":
		p.RandomizationFactor = -0.5
	case "bigrand":
		p.RandomizationFactor = 1.5
	case "zerointerval":
		p.InitialInterval = 0
	case "mult1":
		p.Multiplier = 1
	default:
		return false
	}
	ok := false
	func() {
		defer func() { recover() }()
		ok = reg.Register(&plug{name: "actbp", s: s, pol: &p}) == nil
	}()
	return ok
}

// newWS is coercion.New on a store that may hold plans to resume: recovery runs inside New, so a recovery that never
// comes back is a hang of the resuming process like a Wait that never returns (third result true).
func newWS(ctx context.Context, reg *registry.Register, store storage.Vault, opts ...coercion.Option) (*coercion.Workstream, error, bool) {
	type res struct {
		ws  *coercion.Workstream
		err error
	}
	ch := make(chan res, 1)
	go func() { w, e := coercion.New(ctx, reg, store, opts...); ch <- res{w, e} }()
	select {
	case r := <-ch:
		return r.ws, r.err, false
	case <-time.After(5 * time.Second):
		return nil, nil, true
	}
}

// runEngine runs one engine scenario. It returns errHang if a Wait did not return; the
// caller then ends the process (a hung plan is never left behind in a live process).
func runEngine(rec *recorder, sc *Scenario) error {
	ctx := context.Background()
	if sc.NPlans < 1 {
		sc.NPlans = 1
	}
	waitFor := 3 * time.Second
	if sc.WaitMs > 0 {
		waitFor = time.Duration(sc.WaitMs) * time.Millisecond
	}
	s := newSched(rec, sc, 0, 1)
	defer s.close()
	reg := mkReg(s)
	v, err := newVault(ctx, reg)
	if sc.Root != "" {
		v, err = sqlite.New(ctx, sc.Root, reg)
	}
	if err != nil {
		return err
	}
	sp := &spy{Vault: v, s: s, nm: map[uuid.UUID]*planRun{}, slow: time.Duration(sc.SlowStoreUs) * time.Microsecond, failAt: sc.FailAt, failKind: sc.FailKind, failNth: max(1, sc.FailNth)}
	ws, err := coercion.New(ctx, reg, sp)
	if err != nil {
		return err
	}
	// template vault: holds the pristine plans for crash-point rebuilds
	tmpl, err := newVault(ctx, reg)
	if err != nil {
		return err
	}
	runs := []*planRun{}
	for pl := 0; pl < sc.NPlans; pl++ {
		p := buildPlan(sc, pl)
		id, err := submit(ctx, ws, sp, reg, sc, p)
		if err != nil {
			return fmt.Errorf("submit: %w", err)
		}
		pr := &planRun{pl: pl, id: id, nm: &names{m: map[uuid.UUID]string{}}}
		pr.descs, pr.blocks = describe(p, sc.Shape, pr.nm)
		rec.do(func() ev {
			for oid, n := range pr.nm.m {
				s.byID[oid] = objRef{pl, n}
			}
			return nil
		})
		sp.wmu.Lock()
		for oid := range pr.nm.m {
			sp.nm[oid] = pr
		}
		sp.wmu.Unlock()
		runs = append(runs, pr)
		if sc.Root != "" {
			fmt.Printf("PLANID %s\n", id)
			os.Stdout.Sync()
		}
		if sc.Crash != "" {
			pristine, err := v.Read(ctx, id)
			if err != nil {
				return fmt.Errorf("read pristine: %w", err)
			}
			if err := tmpl.Create(ctx, pristine); err != nil {
				return fmt.Errorf("template create: %w", err)
			}
		}
		s.emit(pl, func() ev {
			return ev{"ev": "Config", "objs": pr.descs, "blocks": pr.blocks, "retries": sc.Shape.Retries, "cretries": sc.Shape.CRetries, "mode": s.mode,
				"tag": sc.Tag, "nplans": sc.NPlans, "crashk": -1, "crashj": -1, "fn": sc.Fn, "mshape": modelShape(sc.Shape)}
		})
	}
	stopPoll := make(chan struct{})
	var pollWG sync.WaitGroup
	if sc.Poll {
		for _, pr := range runs {
			pollWG.Add(1)
			go poller(ctx, ws, s, pr, stopPoll, &pollWG, sc.PollStatus)
		}
	}
	for _, pr := range runs {
		s.emit(pr.pl, func() ev { return ev{"ev": "StartCall"} })
		sctx, cancelStart := context.WithCancel(ctx)
		err := ws.Start(sctx, pr.id)
		if sc.CancelStart {
			cancelStart() // Start's documentation: cancelling the Context does not stop execution
		} else {
			defer cancelStart()
		}
		s.emit(pr.pl, func() ev {
			return ev{"ev": "StartRet", "ok": err == nil, "after": false, "known": true, "stale": false}
		})
		if err != nil {
			return fmt.Errorf("start: %w", err)
		}
	}
	var wg sync.WaitGroup
	hung := make([]bool, len(runs))
	for i, pr := range runs {
		wg.Add(1)
		go func() {
			defer wg.Done()
			res, err, to := waitPlan(ctx, ws, pr.id, waitFor)
			if to {
				hung[i] = true
				s.emit(pr.pl, func() ev { return ev{"ev": "Hang"} })
				return
			}
			s.emit(pr.pl, func() ev {
				m := ev{"ev": "WaitRet", "ok": err == nil, "snap": snapshot(res, pr.nm), "reason": "-", "infl": s.infl[pr.pl]}
				if res != nil {
					m["reason"] = res.Reason.String()
				}
				return m
			})
		}()
	}
	wg.Wait()
	for _, h := range hung {
		if h {
			return errHang
		}
	}
	s.drain()
	time.Sleep(4 * time.Millisecond)
	deadline := time.Now().Add(500 * time.Millisecond)
	for time.Now().Before(deadline) {
		busy := 0
		for _, pr := range runs {
			busy += s.inflight(pr.pl)
		}
		if busy == 0 {
			break
		}
		time.Sleep(time.Millisecond)
	}
	for i := 0; i < 12000 && atomic.LoadInt64(&s.ovOpen) > 0; i++ {
		time.Sleep(time.Millisecond)
	}
	time.Sleep(2 * time.Millisecond)
	close(stopPoll)
	pollWG.Wait()
	for _, pr := range runs {
		res, err := ws.Plan(ctx, pr.id)
		s.emit(pr.pl, func() ev {
			m := ev{"ev": "Read", "ok": err == nil, "snap": snapshot(res, pr.nm), "reason": "-"}
			if res != nil {
				m["reason"] = res.Reason.String()
			}
			return m
		})
		s.emit(pr.pl, func() ev { return ev{"ev": "End"} })
		if pr.pl == 0 && res != nil && res.State != nil {
			sc.baseStatus = res.State.Status.String()
		}
	}
	if sc.Crash != "" {
		return crashPoints(ctx, rec, sc, runs[0], tmpl, sp.writesCopy(), nil, 0)
	}
	return nil
}

func (s *spy) writesCopy() []writeRec {
	s.wmu.Lock()
	defer s.wmu.Unlock()
	return append([]writeRec(nil), s.writes...)
}

// poller reads the plan continuously and logs every change of an object's visible state.
func poller(ctx context.Context, ws *coercion.Workstream, s *sched, pr *planRun, stop chan struct{}, wg *sync.WaitGroup, viaStatus bool) {
	defer wg.Done()
	last := map[string]string{}
	for _, d := range pr.descs {
		last[d.Obj] = "NotStarted|0"
	}
	see := func(p *workflow.Plan) {
		for _, x := range snapshot(p, pr.nm) {
			m := x.(ev)
			v := fmt.Sprintf("%s|%d", m["st"], m["natt"])
			o := m["obj"].(string)
			if last[o] != v {
				last[o] = v
				s.emit(pr.pl, func() ev { return ev{"ev": "R", "obj": o, "st": m["st"], "natt": m["natt"]} })
			}
		}
	}
	stopped := func() bool {
		select {
		case <-stop:
			return true
		default:
			return false
		}
	}
	for !stopped() {
		if viaStatus {
			// the streaming API: it ends by itself once the plan it reads is not Running (before Start, after the end)
			for r := range ws.Status(ctx, pr.id, 150*time.Microsecond) {
				if r.Err == nil && r.Data != nil {
					see(r.Data)
				}
				if stopped() {
					return
				}
			}
		} else if p, err := ws.Plan(ctx, pr.id); err == nil && p != nil {
			see(p)
		}
		time.Sleep(150 * time.Microsecond)
	}
}

// crashPoints enumerates crash points of the recorded execution: for crash point k the store
// is rebuilt from the pristine plan plus writes 1..k, a new Workstream is constructed on it
// (which recovers the plan), and the events of the new process form trace k.
// prefix holds the writes of earlier process lifetimes (double crash).
func crashPoints(ctx context.Context, rec *recorder, sc *Scenario, pr *planRun, tmpl *sqlite.Vault, writes []writeRec, prefix []writeRec, depth int) error {
	n := len(writes)
	ks := []int{}
	max := sc.CrashMax
	if depth > 0 {
		max = sc.Crash2Max
	}
	if sc.Crash == "all" && depth == 0 || max <= 0 || n+1 <= max {
		for k := 0; k <= n; k++ {
			ks = append(ks, k)
		}
	} else {
		// evenly spaced sample that always contains the first and last points, shifted by the seed
		step := float64(n) / float64(max-1)
		seen := map[int]bool{}
		for i := 0; i < max; i++ {
			k := int(float64(i)*step+float64(sc.Seed%7)*step/7) % (n + 1)
			if i == max-1 {
				k = n
			}
			if !seen[k] {
				seen[k] = true
				ks = append(ks, k)
			}
		}
	}
	for _, k := range ks {
		tr := k + 1
		if depth > 0 {
			tr = sc.curTr*1000 + k + 1
		}
		s := newSched(rec, sc, tr, depth+2)
		reg := mkReg(s)
		v, err := newVault(ctx, reg)
		if err != nil {
			return err
		}
		pristine, err := tmpl.Read(ctx, pr.id)
		if err != nil {
			return fmt.Errorf("template read: %w", err)
		}
		if err := v.Create(ctx, pristine); err != nil {
			return fmt.Errorf("rebuild create: %w", err)
		}
		for _, w := range prefix {
			if err := w.apply(ctx, v); err != nil {
				return fmt.Errorf("rebuild apply: %w", err)
			}
		}
		for i := 0; i < k; i++ {
			if err := writes[i].apply(ctx, v); err != nil {
				return fmt.Errorf("rebuild apply: %w", err)
			}
		}
		pre, err := v.Read(ctx, pr.id)
		if err != nil {
			return fmt.Errorf("rebuild read: %w", err)
		}
		rec.do(func() ev {
			for oid, nme := range pr.nm.m {
				s.byID[oid] = objRef{0, nme}
			}
			return nil
		})
		ck, cj := k, -1
		if depth > 0 {
			ck, cj = sc.curK, k
		}
		s.emit(0, func() ev {
			return ev{"ev": "Config", "objs": pr.descs, "blocks": pr.blocks, "retries": sc.Shape.Retries, "cretries": sc.Shape.CRetries, "mode": "crash",
				"tag": sc.Tag, "nplans": 1, "crashk": ck, "crashj": cj, "fn": sc.Fn, "mshape": modelShape(sc.Shape)}
		})
		s.emit(0, func() ev {
			return ev{"ev": "Crash", "snap": snapshot(pre, pr.nm), "reason": pre.Reason.String(), "k": ck, "j": cj, "base": sc.baseStatus, "old": false, "recovery": true, "ages": 0}
		})
		sp := &spy{Vault: v, s: s, nm: map[uuid.UUID]*planRun{}}
		p0 := &planRun{pl: 0, id: pr.id, nm: pr.nm, descs: pr.descs, blocks: pr.blocks}
		for oid := range pr.nm.m {
			sp.nm[oid] = p0
		}
		ws, err, stuck := newWS(ctx, reg, sp)
		if stuck {
			s.emit(0, func() ev { return ev{"ev": "Hang"} })
			s.close()
			return errHang
		}
		if err != nil {
			return fmt.Errorf("recover New: %w", err)
		}
		s.emit(0, func() ev { return ev{"ev": "NewProc", "running": pre.State.Status == workflow.Running} })
		res, werr, to := waitPlan(ctx, ws, pr.id, 3*time.Second)
		if to {
			s.emit(0, func() ev { return ev{"ev": "Hang"} })
			s.close()
			return errHang
		}
		s.emit(0, func() ev {
			m := ev{"ev": "WaitRet", "ok": werr == nil, "snap": snapshot(res, pr.nm), "reason": "-", "infl": s.infl[0]}
			if res != nil {
				m["reason"] = res.Reason.String()
			}
			return m
		})
		s.drain()
		time.Sleep(2 * time.Millisecond)
		for i := 0; i < 200 && s.inflight(0) > 0; i++ {
			time.Sleep(time.Millisecond)
		}
		res2, err2 := ws.Plan(ctx, pr.id)
		s.emit(0, func() ev {
			m := ev{"ev": "Read", "ok": err2 == nil, "snap": snapshot(res2, pr.nm), "reason": "-"}
			if res2 != nil {
				m["reason"] = res2.Reason.String()
			}
			return m
		})
		s.emit(0, func() ev { return ev{"ev": "End"} })
		s.close()
		if depth == 0 && sc.Crash2Max > 0 && pre.State.Status == workflow.Running {
			sc.curTr, sc.curK = tr, k
			if err := crashPoints(ctx, rec, sc, pr, tmpl, sp.writesCopy(), writes[:k], 1); err != nil {
				return err
			}
		}
	}
	return nil
}

func fatal(format string, a ...any) {
	fmt.Fprintf(os.Stderr, format+"\n", a...)
	os.Exit(2)
}
