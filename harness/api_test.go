package harness

// API histories (C12): a list of public API calls executed on one Workstream against one
// tiny plan ("known" id) and a never-submitted id ("unknown"), including racing Starts.

import (
	"fmt"
	"strings"
	"sync"
	"sync/atomic"
	"time"

	"github.com/element-of-surprise/coercion"
	"github.com/element-of-surprise/coercion/workflow"
	"github.com/element-of-surprise/coercion/workflow/context"
	"github.com/google/uuid"
)

func runAPI(rec *recorder, sc *Scenario) error {
	ctx := context.Background()
	s := newSched(rec, sc, 0, 1)
	defer s.close()
	reg := mkReg(s)
	sc.bpOK = sc.BadPolicy != "" && offerBadPolicy(reg, s, sc.BadPolicy)
	v, err := newVault(ctx, reg)
	if err != nil {
		return err
	}
	sp := &spy{Vault: v, s: s, nm: map[uuid.UUID]*planRun{}}
	opts := []coercion.Option{}
	if sc.MaxSubmitMs > 0 {
		opts = append(opts, coercion.WithMaxSubmit(time.Duration(sc.MaxSubmitMs)*time.Millisecond))
	}
	ws, err := coercion.New(ctx, reg, sp, opts...)
	if err != nil {
		return err
	}
	p := buildPlan(sc, 0)
	pr := &planRun{pl: 0, nm: &names{m: map[uuid.UUID]string{}}}
	// Config first: descriptors do not depend on ids
	tmp := &names{m: map[uuid.UUID]string{}}
	pr.descs, pr.blocks = describe(p, sc.Shape, tmp)
	s.emit(0, func() ev {
		return ev{"ev": "Config", "objs": pr.descs, "blocks": pr.blocks, "retries": sc.Shape.Retries, "cretries": sc.Shape.CRetries, "mode": "api",
			"tag": sc.Tag, "nplans": 1, "crashk": -1, "crashj": -1, "fn": false}
	})
	known := uuid.Nil
	submitted := false
	unknown := workflow.NewV7()
	var okReturned atomic.Bool
	var submitAt time.Time

	guard := func(op string, f func()) {
		defer func() {
			if r := recover(); r != nil {
				s.emit(0, func() ev { return ev{"ev": "Panic", "op": op, "msg": fmt.Sprint(r)} })
			}
		}()
		f()
	}
	pick := func(arg string) (uuid.UUID, bool) {
		if arg == "unknown" {
			return unknown, false
		}
		if !submitted {
			return unknown, false
		}
		return known, true
	}
	var startOKs atomic.Int64
	start := func(id uuid.UUID, isKnown bool) {
		after := okReturned.Load() && isKnown
		stale := isKnown && sc.MaxSubmitMs > 0 && time.Since(submitAt) > time.Duration(sc.MaxSubmitMs)*time.Millisecond
		s.emit(0, func() ev { return ev{"ev": "StartCall", "known": isKnown} })
		var err error
		guard("start", func() { err = ws.Start(ctx, id) })
		if err == nil && isKnown {
			okReturned.Store(true)
		}
		if err == nil {
			startOKs.Add(1)
		}
		s.emit(0, func() ev {
			return ev{"ev": "StartRet", "ok": err == nil, "after": after, "known": isKnown, "stale": stale}
		})
	}
	for opi, op := range sc.Api {
		name, arg, _ := strings.Cut(op, ":")
		before := startOKs.Load()
		if opi > 0 && opi-1 < len(sc.ApiExpect) && sc.ApiExpect[opi-1] != 99 {
			_ = before
		}
		check := func() {
			if opi < len(sc.ApiExpect) && sc.ApiExpect[opi] != 99 {
				got := int(startOKs.Load() - before)
				s.emit(0, func() ev { return ev{"ev": "ApiCheck", "op": op, "expected": sc.ApiExpect[opi], "got": got} })
			}
		}
		switch {
		case name == "submit":
			if submitted {
				// a second plan object: the same definition submitted again gets a new id
				p2 := buildPlan(sc, 0)
				var err error
				guard("submit", func() { _, err = ws.Submit(ctx, p2) })
				s.emit(0, func() ev { return ev{"ev": "ApiRet", "op": "submit2", "ok": err == nil, "known": true, "empty": false} })
				continue
			}
			var err error
			guard("submit", func() { known, err = ws.Submit(ctx, p) })
			if err != nil {
				return fmt.Errorf("submit: %w", err)
			}
			submitted = true
			submitAt = time.Now()
			describe(p, sc.Shape, pr.nm)
			pr.id = known
			rec.do(func() ev {
				for oid, n := range pr.nm.m {
					s.byID[oid] = objRef{0, n}
				}
				return nil
			})
			sp.wmu.Lock()
			for oid := range pr.nm.m {
				sp.nm[oid] = pr
			}
			sp.wmu.Unlock()
			s.emit(0, func() ev { return ev{"ev": "ApiRet", "op": "submit", "ok": true, "known": true, "empty": false} })
		case name == "sleep":
			ms := 0
			fmt.Sscan(arg, &ms)
			time.Sleep(time.Duration(ms) * time.Millisecond)
		case name == "start":
			id, k := pick(arg)
			start(id, k)
			check()
		case strings.HasPrefix(name, "race"):
			n := 2
			fmt.Sscan(name[4:], &n)
			id, k := pick(arg)
			var wg sync.WaitGroup
			gate := make(chan struct{})
			for i := 0; i < n; i++ {
				wg.Add(1)
				go func() {
					defer wg.Done()
					<-gate
					start(id, k)
				}()
			}
			close(gate)
			wg.Wait()
			check()
		case name == "wait":
			id, k := pick(arg)
			var res *workflow.Plan
			var err error
			to := false
			guard("wait", func() { res, err, to = waitPlan(ctx, ws, id, 3*time.Second) })
			if to {
				s.emit(0, func() ev { return ev{"ev": "Hang"} })
				return errHang
			}
			empty := err == nil && (res == nil || res.State == nil)
			s.emit(0, func() ev { return ev{"ev": "ApiRet", "op": "wait", "ok": err == nil, "known": k, "empty": empty} })
		case name == "waitto":
			// a Wait that gives up (context deadline) while the plan may still be running
			id, k := pick(arg)
			wctx, cancel := context.WithTimeout(ctx, time.Millisecond)
			var err error
			guard("waitto", func() { _, err = ws.Wait(wctx, id) })
			cancel()
			s.emit(0, func() ev { return ev{"ev": "ApiRet", "op": "waitto", "ok": err == nil, "known": k, "empty": false} })
		case name == "statusbrk":
			// a Status consumer that stops after the first result
			id, k := pick(arg)
			n := 0
			done := make(chan struct{})
			sctx, cancel := context.WithTimeout(ctx, 2*time.Second)
			go func() {
				defer close(done)
				guard("statusbrk", func() {
					for range ws.Status(sctx, id, 300*time.Microsecond) {
						n++
						break
					}
				})
			}()
			<-done
			cancel()
			s.emit(0, func() ev { return ev{"ev": "ApiRet", "op": "statusbrk", "ok": true, "known": k, "empty": n == 0} })
		case name == "plan":
			id, k := pick(arg)
			var res *workflow.Plan
			var err error
			guard("plan", func() { res, err = ws.Plan(ctx, id) })
			empty := err == nil && (res == nil || res.State == nil)
			s.emit(0, func() ev { return ev{"ev": "ApiRet", "op": "plan", "ok": err == nil, "known": k, "empty": empty} })
		case name == "status":
			id, k := pick(arg)
			n, lastErr := 0, false
			done := make(chan struct{})
			sctx, cancel := context.WithCancel(ctx)
			go func() {
				defer close(done)
				guard("status", func() {
					for r := range ws.Status(sctx, id, 300*time.Microsecond) {
						n++
						lastErr = r.Err != nil
						if n > 2000 {
							break
						}
					}
				})
			}()
			select {
			case <-done:
			case <-time.After(3 * time.Second):
				cancel()
				<-done
			}
			cancel()
			s.emit(0, func() ev { return ev{"ev": "ApiRet", "op": "status", "ok": !lastErr, "known": k, "empty": n == 0} })
		default:
			return fmt.Errorf("unknown api op %q", op)
		}
	}
	// let a started plan finish, then take the final snapshot
	if submitted {
		res, err, to := waitPlan(ctx, ws, known, 3*time.Second)
		if to {
			s.emit(0, func() ev { return ev{"ev": "Hang"} })
			return errHang
		}
		started := okReturned.Load()
		s.drain()
		time.Sleep(3 * time.Millisecond)
		if started {
			s.emit(0, func() ev {
				m := ev{"ev": "WaitRet", "ok": err == nil, "snap": snapshot(res, pr.nm), "reason": "-", "infl": s.infl[0]}
				if res != nil {
					m["reason"] = res.Reason.String()
				}
				return m
			})
			time.Sleep(3 * time.Millisecond)
			res2, err2 := ws.Plan(ctx, known)
			s.emit(0, func() ev {
				m := ev{"ev": "Read", "ok": err2 == nil, "snap": snapshot(res2, pr.nm), "reason": "-"}
				if res2 != nil {
					m["reason"] = res2.Reason.String()
				}
				return m
			})
		}
	}
	s.emit(0, func() ev { return ev{"ev": "End"} })
	return nil
}
