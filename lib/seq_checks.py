"""Checks for the sequential components (C13..C20): a TLA+ model of the component generates
cases / histories with the expected observable result after every step (TLC as enumerator),
the Go harness replays each one on the real code and compares step by step. A mismatch between
the model's reply and the real reply is the verdict."""
import importlib, os, sys

CHECKS = {}
for name in ("c13", "c14", "c15", "c16", "c17", "c18", "c19", "c20"):
    try:
        m = importlib.import_module("check_" + name)
    except ModuleNotFoundError as ex:
        if ex.name != "check_" + name:
            raise
        continue
    CHECKS[name.upper()] = m.run
