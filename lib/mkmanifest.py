#!/usr/bin/env python3
"""Regenerates MANIFEST.json from the table below (kept in one place so it stays valid)."""
import json, os, subprocess
V = os.path.dirname(os.path.dirname(os.path.abspath(__file__)))
props = [json.loads(l) for l in open(os.path.join(V, "properties.jsonl"))]
ENGINE_TEXT = {
 "C01": "order/gating clauses C01_* of spec/Props.tla evaluated by TLC on every step of every trace recorded from the real engine (families order, tolerance, gates, cont; free-running and gated schedules) and model-checked on spec/Engine.tla",
 "C02": "C02_Bound / C02_OneBlock evaluated by TLC on recorded traces (tolerance and order families, several plans on one Workstream) and on the engine model",
 "C03": "C03_Bound, C03_StopExact (concurrency 1), C03_BlockVerdict, C03_AfterFailedBlock on recorded traces (all placements of failing sequences x tolerance x concurrency) and on the engine model",
 "C04": "C04_* clauses (terminal, nothing running, quiescent, stable, consistent, times, reason) at every Wait return / later read of every trace, incl. continuous checks in flight at the end and several plans at once",
 "C05": "attempt clauses C05_* on traces of every realisable outcome script over ok/transient/permanent/wrong type/overrun for retries 0..2, sequence and check actions",
 "C06": "bypass / pre-check gating clauses C06_* on traces of the gates family (each of the five groups absent/passing/failing at plan and block level)",
 "C07": "C07_* on traces with continuous checks failing at run k at varying positions, held sequences proving the checks keep running, deferred groups on every failure path",
 "C08": "persist-before-act clauses C08_* on every trace: the vault spy logs each write after it returned, a poller logs every visible change; slow-store runs",
 "C09": "C09_* on crash traces: every sampled prefix of the durable write log of varied executions (failing plans, tolerated failures, checks, bypass, concurrency) rebuilt into a fresh store and recovered; second crash during recovery",
 "C10": "C10_* on the same crash traces with outcomes a function of the action: termination, consistency, deferred ran, same outcome as the uninterrupted run",
 "C11": "C11_* on stores holding 2-4 plans in assorted durable states and ages around the configured maximum, recovery on and off",
 "C12": "C12_* on API histories (Submit/Start/Wait/Status/Plan on known and unknown ids), racing Starts, stale submissions; process death is observed by the driver; plus spec/Exec.tla, the plan registry as a concurrent system (Start/runPlan/Wait/Status/recover, two plans, several callers, crash and new process, two-container vault), model-checked exhaustively, with Workstream histories (racing and background callers, two plans, restarts with and without recovery, lagging search index) recorded from the real code and validated against it by TLC (spec/ExecTrace.tla)",
}
SEQ = {
 "C13": ("spec/Vault.tla", "TLC enumerates vault operation histories (Create/Update*/Read/Delete) with the expected reply after every step; Go replay on a fresh sqlite vault and a fresh cosmosdb fake vault compares every reply, Read structurally against a concrete reference plan built from value classes"),
 "C14": ("spec/Vault.tla", "histories with failing/duplicate Creates and Deletes; after every step Read/Exists of every model id plus a row census of every sqlite table (cosmosdb: item census through the fake)"),
 "C15": ("spec/Vault.tla", "Exists/Search/List over model stores of 0..4 plans, all filter combinations and limits; result streams compared with the model's ordered list and required to close; cosmosdb predicates the fake does not evaluate are decided on the generated query text"),
 "C16": ("spec/Submit.tla", "TLC enumerates plans obtained from valid base plans by every single mutation, every coherent pair and seeded larger sets, with the expected Submit and Start verdicts computed in TLA+; Go replay checks verdicts, nothing stored on reject, fresh v7 ids / pristine state / stored definition on accept"),
 "C17": ("spec/Secure.tla", "TLC enumerates request/response type shapes (struct/ptr/slice/map/interface/array nesting with secure tags) and computes which leaf must be scrubbed; Go builds the types with reflect, plants canaries, searches clone output and every rendered report file; registry verdict Refuses(shape)"),
 "C18": ("spec/Clone.tla", "TLC enumerates (execution state x options x object kind) with the expected projection; Go clones real plans obtained by running them, compares field by field, mutates every reachable location to prove no aliasing, resubmits default clones"),
 "C19": ("spec/Walk.tla", "TLC enumerates plan shapes (all subsets of the five groups at both levels, nil vs empty slices, 0-2 blocks/sequences/actions) with the reference walk order, chains and every stop position; Go replay compares pointer identity of every yielded item and chain, and early stops"),
 "C20": ("spec/Builder.tla", "TLC enumerates builder call histories (all sequences to depth 3/4, transition cover, random) with the expected observable result after every call; Go replay on the real builder compares step by step"),
}
checks = []
for pid in sorted(list(ENGINE_TEXT) + [p for p in SEQ if os.path.exists(os.path.join(V, "lib", "check_%s.py" % p.lower()))]):
    if pid in ENGINE_TEXT:
        text, engine, tech = ENGINE_TEXT[pid], "engine-trace", "explicit TLA+ specification of the engine (Engine.tla) model-checked by TLC with the property clauses (Props.tla) as invariant; bound to the code in both directions: TLC-generated behaviours replayed into the real engine, every recorded trace validated by TLC against the clauses (EngineTrace.tla) and a sample of live and crash-recovery traces against Engine.tla itself (EngineConf.tla)"
        note = "trusted: TLC, the recorder (one mutex, events logged after the write returned / at plugin entry), sqlite in-memory vault as storage; bounded scenario families; known findings in known_findings.json"
    else:
        text, engine, tech = SEQ[pid][1], "seq-replay", "TLA+ model (%s) as reference semantics; TLC-generated cases replayed on the real code, reply compared after every step" % SEQ[pid][0]
        note = "trusted: TLC, the TLA+ model as reference semantics, the Go replay's concretisation of abstract values; bounded case families"
    if pid == "C12":
        tech += "; the registry itself is a second explicit TLA+ specification (Exec.tla: one action per critical section of Start/runPlan/Wait/recover) model-checked by TLC (invariants OneRunner, AtMostOnce, StartOnce, WaitTruth, StaleRejected, MutexInv, NoPanic; liveness under fairness), and every recorded Workstream history must be a behaviour of it (trace validation with inferred silent steps, ExecTrace.tla)"
    checks.append({"property_id": pid, "quick_cmd": "./check %s --tier quick" % pid, "thorough_cmd": "./check %s --tier thorough" % pid,
                   "evidence_file": "evidence/%s.json" % pid, "replay_cmd_template": "./check %s --replay {path}" % pid, "engine": engine,
                   "level_claimed": {"category": "model_checking", "text": text, "design_ref": "DESIGN.md section 6 (%s)" % pid},
                   "level_note": note, "technique": tech})
claimed = {c["property_id"] for c in checks}
hooks = subprocess.run(["git", "-C", "/repo", "log", "--format=%h", "--grep=^verif hook"], capture_output=True, text=True).stdout.split()
m = {"version": 1, "setup_cmd": "./check --setup",
     "hooks": {"guard": "verif", "enable": "go test -c -tags verif in /verif/harness (go.mod replace => /repo); only workflow/storage/cosmosdb/verif_hooks.go is guarded",
               "baseline_off_cmd": "cd /repo && GOFLAGS=-mod=mod GOPROXY=off go test -vet=off -count=1 -timeout 25m ./...", "source_commits": hooks, "add_only": True},
     "engines": [{"name": "engine-trace", "path": "spec/Props.tla spec/EngineTrace.tla spec/Engine.tla harness/ lib/engine_checks.py", "serves_properties": sorted(ENGINE_TEXT), "kind_free_text": "TLA+ recording monitor over traces of the real engine + TLC model checking"},
                 {"name": "seq-replay", "path": "spec/*.tla harness/*_test.go lib/check_c*.py", "serves_properties": sorted(p for p in SEQ if p in claimed), "kind_free_text": "TLA+ reference models as case generators, Go replay"}],
     "checks": checks,
     "notes": "driver: ./check <id> [--tier quick|thorough] [--replay path]; VERIF_SEED seeds every random choice; exit 2 = inconclusive infrastructure outcome",
     "not_applicable": [{"property_id": p["id"], "reason": "check under construction in this round (planned per DESIGN.md section 6); not claimed until it runs clean"} for p in props if p["id"] not in claimed]}
json.dump(m, open(os.path.join(V, "MANIFEST.json"), "w"), indent=1)
print("claimed:", sorted(claimed))
