"""C14: Create all-or-nothing and unique, Delete exact. spec/Vault.tla generates histories of Create /
duplicate Create / Create with an unencodable request at every action position / Create refused by the
backend (cosmosdb fake) / Delete / updates; after every writing step the harness (TestVault, VH_PROP=C14)
reads every id and counts the rows of every sqlite table per plan id. Thorough tier: kill -9 of a child
process during Create on a file-backed sqlite store."""
import os
import vlib, vaultlib

ASSUME = ["spec/Vault.tla is the reference semantics (a failed or duplicate Create leaves the store unchanged; Delete removes exactly one plan)",
          "an object that cannot be encoded = an action whose request type has a channel field (every action position of shapes S1..S4)",
          "sqlite: rows counted per plan id in plans/blocks/checks/sequences/actions through Vault.Pool(); cosmosdb: the fake client's tables are not reachable, Read and Exists of every model id are compared instead",
          "a write refused by the backend can only be injected in the cosmosdb fake: every batch (VerifFake.FailCreate) or only the second transactional batch of the Create (VerifFake.FailBatch: the search-record batch, or - for a plan of more than 100 objects, shape S5 - whatever an implementation does second)",
          "process death is exercised in the thorough tier only (kill -9 at seeded instants, sqlite file store); machine crash / power loss is not covered"]


def run(prop, tier, seed, replay=None):
    quick = tier == "quick"
    gens = [dict(cfg="VaultC14Seq.cfg", consts={"MaxLen": 3 if quick else 4}, timeout=1500),
            dict(cfg="VaultC14Cover.cfg", consts={} if quick else {"CIds": '{"p1","p2","p3"}', "ShapeNames": '{"S2","S4"}'}, timeout=1500),
            dict(cfg="VaultC14Big.cfg", consts={"MaxLen": 2 if quick else 3}, timeout=1500),
            dict(cfg="VaultC14Sim.cfg", simulate="num=%d" % (120 if quick else 5000), depth=21, timeout=200 if quick else 900)]
    if not quick:
        gens.append(dict(cfg="VaultC14Seq.cfg", consts={"MaxLen": 3, "ShapeNames": '{"S1","S2"}', "Ops": '{"Create","CreateFail","Delete","UpdatePlan"}'}, timeout=1500))
    rounds = 0 if quick else 200

    def crash(d, seed):
        if not rounds or replay:
            return []
        return [vlib.run_go_seq("TestVaultCrash", os.devnull, tag="c14crash", timeout=3000, env_extra={"VH_CRASH": str(rounds), "VH_SEED": str(seed)})]

    rule = ("every history of length %d of Create / duplicate Create / unencodable Create / Create refused at its first or second storage operation / Delete / UpdatePlan over 2 creatable ids + 1 never created; a transition cover "
            "(one history per (store, operation) pair) with the unencodable request at EVERY action position of shapes S2,S3,S4; seeded random histories of length 20; after every writing step "
            "Read of every id and a row census of every table; %d kill -9 rounds during Create on a file-backed store" % (3 if quick else 4, rounds))
    return vaultlib.run(prop, tier, seed, gens, rule, ASSUME, replay, extra_results=crash, extra={"crash_rounds": rounds})
