"""Scenario families for the engine properties (C01..C12). Every generator takes a seeded
random.Random and a size and returns a list of scenario dicts for the Go harness.
The families only decide what is driven; verdicts come from the TLA+ clauses evaluated on
the recorded traces."""
import itertools, random

GROUPS = ["bypass", "pre", "cont", "post", "deferred"]


def blk(seqs, conc=1, tol=0, g=None, ed=0, xd=0):
    b = {"g": g or {}, "seqs": list(seqs), "conc": conc, "tol": tol}
    if ed:
        b["ed"] = ed      # EntranceDelay, microseconds
    if xd:
        b["xd"] = xd      # ExitDelay
    return b


def shape(blocks, pg=None, retries=0, cretries=0):
    return {"pg": pg or {}, "blocks": blocks, "retries": retries, "cretries": cretries}


def seq_actions(sh):
    out = []
    for bi, b in enumerate(sh["blocks"]):
        for si, na in enumerate(b["seqs"]):
            for ai in range(na):
                out.append("b%d.s%d.a%d" % (bi + 1, si + 1, ai + 1))
    return out


def check_actions(sh):
    out = []
    for g in GROUPS:
        for i in range(sh["pg"].get(g, 0)):
            out.append("p.%s.a%d" % (g, i + 1))
    for bi, b in enumerate(sh["blocks"]):
        for g in GROUPS:
            for i in range(b["g"].get(g, 0)):
                out.append("b%d.%s.a%d" % (bi + 1, g, i + 1))
    return out


def scn(sh, mode="free", out=None, **kw):
    s = {"kind": "engine", "shape": sh, "mode": mode, "out": out or {}}
    s.update(kw)
    return s


def rand_outcomes(rnd, sh, p_tr=0.15, p_perm=0.15, calls=3):
    out = {}
    for a in seq_actions(sh):
        scr = []
        for _ in range(calls):
            x = rnd.random()
            scr.append("tr" if x < p_tr else "perm" if x < p_tr + p_perm else "ok")
        if any(o != "ok" for o in scr):
            out[a] = scr
    return out


# ---------------------------------------------------------------------------------------
def fam_order(rnd, n):
    """Small plans without checks: 1-3 blocks, 1-3 sequences, 1-3 actions, concurrency 1-3;
    outcomes ok/transient/permanent; free running with seeded latencies and gated 'quiet' runs."""
    res = []
    for i in range(n):
        nb = rnd.choice([1, 2, 2, 3])
        blocks = []
        for _ in range(nb):
            ns = rnd.choice([1, 2, 3])
            blocks.append(blk([rnd.choice([1, 2, 3]) for _ in range(ns)], conc=rnd.choice([1, 2, 3]), tol=rnd.choice([0, 0, 1, -1]),
                              ed=rnd.choice([0, 0, 0, 300]), xd=rnd.choice([0, 0, 0, 300])))      # a quarter of the blocks with entrance / exit delays
        sh = shape(blocks, retries=rnd.choice([0, 1, 2]))
        mode = "quiet" if i % 3 == 0 else "free"
        res.append(scn(sh, mode, rand_outcomes(rnd, sh, 0.12, 0.08), tag="order", latmax=rnd.choice([50, 300, 1500]), cancelstart=(i % 7 == 3)))
    return res


def fam_tolerance(rnd, n):
    """One block, 3-6 sequences of 1-2 actions, concurrency 1-3, tolerance -1/0/1/2, failing
    sequences at chosen placements, slow sequences to widen the launch-loop windows."""
    res = []
    for i in range(n):
        ns = rnd.choice([3, 4, 4, 5, 6])
        conc = rnd.choice([0, -1, 1, 2, 2, 3])      # 0: Concurrency unset, which means 1; a negative value is "less than one" too
        tol = rnd.choice([-1, -2, 0, 0, 1, 2, 9223372036854775807])      # any negative value allows every failure; so does a huge one
        sh = shape([blk([rnd.choice([1, 1, 2]) for _ in range(ns)], conc, tol, g=rnd.choice([{}, {"post": 1, "deferred": 1}, {"deferred": 1}]))],
                   pg=rnd.choice([{}, {"deferred": 1}, {"post": 1}]), retries=rnd.choice([0, 0, 1]))
        out, lat = {}, {}
        nfail = rnd.choice([0, 1, 1, 2, 2, 3])
        for s in rnd.sample(range(1, ns + 1), min(nfail, ns)):
            a = rnd.randint(1, sh["blocks"][0]["seqs"][s - 1])
            out["b1.s%d.a%d" % (s, a)] = ["perm"]
        for s in range(1, ns + 1):
            if rnd.random() < 0.35:
                lat["b1.s%d.a1" % s] = [rnd.choice([2000, 5000, 12000])]
        mode = "quiet" if i % 4 == 0 else "free"
        res.append(scn(sh, mode, out, lat=lat, tag="tolerance", latmax=rnd.choice([100, 400])))
    return res


def fam_retry(rnd, n, overrun=True, checks=True):
    """Attempt scripts: every script over {ok,tr,perm,wrongtype,(overrun)} of length <= retries+1
    for retries 0..2, for a sequence action and for check actions running in parallel."""
    res = []
    # wrongptr / permwrap / trwrap are concrete variants of wrongtype / perm / tr (a pointer to the declared response
    # type; a permanent error wrapping a retryable cause; a retryable error wrapping a permanent cause)
    alpha = ["ok", "tr", "perm", "wrongtype", "wrongtr", "wrongptr", "permwrap", "trwrap"]
    scripts = []
    for r in (0, 1, 2):
        for L in range(1, r + 2):
            for s in itertools.product(alpha, repeat=L):
                # a script is realisable if only its last element is final or it uses the whole budget
                if all(x in ("tr", "trwrap") for x in s[:-1]) and (s[-1] not in ("tr", "trwrap") or L == r + 1):
                    scripts.append((r, list(s)))
    rnd.shuffle(scripts)
    # the concrete variants are always there, whatever the sample
    must = [(1, ["permwrap"]), (2, ["trwrap", "permwrap"]), (0, ["wrongptr"]), (1, ["tr", "wrongptr"]), (1, ["trwrap", "ok"]), (2, ["trwrap", "trwrap", "trwrap"])]
    for r, s in must + scripts[:n]:
        sh = shape([blk([2])], retries=r)
        res.append(scn(sh, "free", {"b1.s1.a1": s}, tag="retry-seq"))
        if checks:
            g = rnd.choice(["pre", "post", "deferred", "bypass"])
            lvl = rnd.choice(["p", "b1"])
            sh2 = shape([blk([1], g=({g: 2} if lvl == "b1" else {}))], pg=({g: 2} if lvl == "p" else {}), retries=0, cretries=r)
            res.append(scn(sh2, "free", {"%s.%s.a1" % (lvl, g): s, "%s.%s.a2" % (lvl, g): list(reversed(s)) if rnd.random() < 0.3 else ["ok"]}, tag="retry-check"))
    # a plugin that declares no response type and returns one all the same: the type differs from the declared one
    for r, s in [(0, ["wrongtype"]), (1, ["tr", "wrongtype"]), (1, ["wrongtype"])]:
        res.append(scn(shape([blk([2])], retries=r), "free", {"b1.s1.a1": s, "b1.s1.a2": ["wrongtype"]}, tag="retry-noresp", noresp=True))
    if overrun:
        for r, s in [(0, ["overrun"]), (1, ["overrun", "ok"]), (1, ["overrun", "overrun"]), (2, ["tr", "overrun", "ok"]), (1, ["overrun", "perm"])]:
            sh = shape([blk([2])], retries=r)
            res.append(scn(sh, "free", {"b1.s1.a1": s}, tag="retry-overrun", timeoutms=60, waitms=6000))
        sh = shape([blk([1], g={"pre": 1})], cretries=1)
        res.append(scn(sh, "free", {"b1.pre.a1": ["overrun", "ok"]}, tag="retry-overrun-check", timeoutms=60, waitms=6000))
        # an overrunning call that returns late, while the next attempt is in flight
        for r, s2, lat in [(1, ["lateok", "ok"], [0, 60000]), (2, ["lateok", "tr", "ok"], [0, 50000, 100]), (1, ["lateok", "perm"], [0, 60000])]:
            sh = shape([blk([2])], retries=r)
            res.append(scn(sh, "free", {"b1.s1.a1": s2}, lat={"b1.s1.a1": lat}, tag="retry-late", timeoutms=100, waitms=6000))
    # a plugin whose RetryPolicy declares MaxAttempts: the action's Retries still bound the invocations
    for r, s in ((1, ["tr", "tr", "tr", "tr"]), (0, ["tr", "ok"]), (2, ["tr", "tr", "tr", "ok"])):
        res.append(scn(shape([blk([1])], retries=r), "free", {"b1.s1.a1": s}, tag="retry-maxattempts", maxattplugin=True))
    # Retries below zero: "less than no retry" is no retry - one invocation, recorded, final
    for s in (["ok"], ["perm"], ["tr"], ["wrongtype"]):
        res.append(scn(shape([blk([2])], retries=0), "free", {"b1.s1.a1": s, "b1.s1.a2": s}, tag="retry-negative", negretries=True))
    res.append(scn(shape([blk([1], g={"pre": 1, "post": 1})], cretries=0), "free", {"b1.post.a1": ["tr"]}, tag="retry-negative", negretries=True))
    return res


def fam_gates(rnd, n):
    """Each of the five groups at plan level and at block level absent | passing | failing
    (1-2 actions each), one or two blocks; pairwise-style random sampling of the 3^10 space."""
    res = []
    for i in range(n):
        pg, bg, out = {}, {}, {}
        for g in GROUPS:
            x = rnd.random()
            if x < 0.45:
                continue
            pg[g] = rnd.choice([1, 1, 2])
            if rnd.random() < (0.5 if g == "bypass" else 0.3):
                k = rnd.randint(1, pg[g])
                out["p.%s.a%d" % (g, k)] = ["perm"] if g != "cont" else rnd.choice([["perm"], ["ok", "perm"], ["ok", "ok", "perm"]])
        for g in GROUPS:
            x = rnd.random()
            if x < 0.45:
                continue
            bg[g] = rnd.choice([1, 1, 2])
            if rnd.random() < (0.5 if g == "bypass" else 0.3):
                k = rnd.randint(1, bg[g])
                out["b1.%s.a%d" % (g, k)] = ["perm"] if g != "cont" else rnd.choice([["perm"], ["ok", "perm"], ["ok", "ok", "perm"]])
        blocks = [blk([rnd.choice([1, 2])], g=bg)]
        if rnd.random() < 0.4:
            blocks.append(blk([1], g=rnd.choice([{}, {"pre": 1}, {"deferred": 1}, {"cont": 1}])))
        sh = shape(blocks, pg=pg)
        if rnd.random() < 0.15:
            out["b1.s1.a1"] = ["perm"]
        res.append(scn(sh, "free", out, tag="gates", latmax=rnd.choice([100, 800]), contdelay=rnd.choice([100, 300]), cancelstart=(i % 6 == 5)))
    return res


def fam_cont(rnd, n):
    """Continuous checks: plan and/or block level cont group, failure at run k (1..4) or never,
    sequences slow enough for several runs; positions relative to sequence boundaries vary with
    latencies; half the runs gated ('quiet')."""
    res = []
    for i in range(n):
        lvl = rnd.choice(["p", "b1", "both"])
        pg = {"cont": 1} if lvl in ("p", "both") else {}
        bg = {"cont": 1} if lvl in ("b1", "both") else {}
        for g in ("pre", "post", "deferred"):
            if rnd.random() < 0.3:
                pg[g] = 1
            if rnd.random() < 0.3:
                bg[g] = 1
        ns = rnd.choice([1, 2, 3])
        blocks = [blk([rnd.choice([1, 2]) for _ in range(ns)], conc=rnd.choice([1, 2]), tol=0, g=bg)]
        if rnd.random() < 0.3:
            blocks.append(blk([1]))
        sh = shape(blocks, pg=pg)
        out, lat = {}, {}
        for who in (["p"] if lvl == "p" else ["b1"] if lvl == "b1" else ["p", "b1"]):
            k = rnd.choice([0, 0, 1, 2, 2, 3, 3, 4])
            if k:
                # a failure is final for the scope even if the check would pass again afterwards
                out["%s.cont.a1" % who] = ["ok"] * (k - 1) + ["perm"] + (["ok"] if rnd.random() < 0.5 else [])
        for a in seq_actions(sh):
            lat[a] = [rnd.choice([300, 1000, 2500])]
        if rnd.random() < 0.2:
            out[rnd.choice(seq_actions(sh))] = ["perm"]
        mode = "quiet" if i % 2 == 0 else "free"
        # every fifth plan leaves Checks.Delay unset: the continuous checks then run back to back
        cd = (-1 if i % 10 == 4 else -2) if i % 5 == 4 and mode == "free" else rnd.choice([50, 150, 400])
        if cd < 0:
            # ... and answer at once, so that the loop spends its time in the engine, not in the plugin
            for who in ("p", "b1"):
                lat["%s.cont.a1" % who] = [0]
        res.append(scn(sh, mode, out, lat=lat, tag="cont" if cd > 0 else "cont-nodelay", contdelay=cd, latmax=200, quiet=rnd.choice([800, 1500])))
    return res


def fam_group_race(rnd, n):
    """Check groups of 2-3 actions in which one action fails (or passes) FAST next to a SLOW one (3-8 ms): the group
    has ended only when all its actions have; the stages behind it (sequences, post, deferred, the next block, the
    end of the plan) must not begin while the slow action is still running."""
    res = []
    for i in range(n):
        lvl = rnd.choice(["p", "b1", "b1"])
        g = rnd.choice(["pre", "post", "post", "deferred", "bypass"])
        na = rnd.choice([2, 3])
        pg, bg = {}, {}
        (pg if lvl == "p" else bg)[g] = na
        # something behind the group at both levels
        pg.setdefault("deferred", 1)
        if g != "deferred" and rnd.random() < 0.6:
            bg.setdefault("deferred", 1)
        sh = shape([blk([1, 1], rnd.choice([1, 2]), 0, g=bg), blk([1])], pg=pg)
        slow = rnd.randint(1, na)
        fast = rnd.choice([x for x in range(1, na + 1) if x != slow])
        out, lat = {}, {}
        for a in range(1, na + 1):
            lat["%s.%s.a%d" % (lvl, g, a)] = [rnd.choice([3000, 8000]) if a == slow else 100]
        if rnd.random() < 0.75:
            out["%s.%s.a%d" % (lvl, g, fast)] = ["perm"]
        res.append(scn(sh, "free", out, lat=lat, tag="group-race", latmax=150, waitms=6000))
    return res


def fam_cont_nodelay(rnd, n):
    """Many tiny plans whose continuous checks have no Delay and answer at once: the loop runs back to back, so the end
    of the scope (cancel, drain) lands at every point of a run - between marking the actions Running, launching them
    and writing the result - sooner or later."""
    res = []
    for i in range(n):
        lvl = rnd.choice(["p", "b1"])
        pg = {"cont": rnd.choice([1, 2])} if lvl == "p" else {}
        bg = {"cont": rnd.choice([1, 2])} if lvl == "b1" else {}
        if rnd.random() < 0.4:
            (pg if rnd.random() < 0.5 else bg)["deferred"] = 1
        sh = shape([blk([1] * rnd.choice([1, 2]), conc=1, tol=0, g=bg)] + ([blk([1])] if rnd.random() < 0.3 else []), pg=pg)
        lat = {a: [rnd.choice([300, 700, 1500])] for a in seq_actions(sh)}
        for a in (1, 2):
            lat["%s.cont.a%d" % (lvl, a)] = [0]
        res.append(scn(sh, "free", {}, lat=lat, tag="cont-nodelay", contdelay=-1, latmax=100, waitms=6000))
    return res


def fam_cont_exit(rnd, n):
    """A continuous check fails while a LONG sequence is still executing and shorter ones come and go (concurrency 2):
    the launch loop notices the failure between two launches and leaves; whatever is still running must have
    finished before the deferred checks start, before the scope ends and before Wait returns."""
    res = []
    for i in range(n):
        lvl = rnd.choice(["p", "b1"])
        pg = {"cont": 1} if lvl == "p" else {}
        bg = {"cont": 1} if lvl == "b1" else {}
        (pg if rnd.random() < 0.5 else bg)["deferred"] = 1
        if rnd.random() < 0.3:
            bg["post"] = 1
        ns = rnd.choice([3, 4, 5])
        sh = shape([blk([1] * ns, conc=2, tol=0, g=bg)] + ([blk([1])] if rnd.random() < 0.3 else []), pg=pg)
        lat = {"b1.s1.a1": [rnd.choice([9000, 14000])]}
        for q in range(2, ns + 1):
            lat["b1.s%d.a1" % q] = [rnd.choice([800, 1500, 2500])]
        k = rnd.choice([2, 3, 4, 5, 6, 8])
        out = {"%s.cont.a1" % lvl: ["ok"] * k + ["perm"]}
        res.append(scn(sh, "free", out, lat=lat, tag="cont-exit", contdelay=rnd.choice([200, 400]), latmax=150, waitms=6000))
    return res


def fam_cont_keeps(rnd, n):
    """Positive evidence that continuous checks keep being re-run: a sequence action is held
    until the cont action has been invoked m times."""
    res = []
    for i in range(n):
        lvl = rnd.choice(["p", "b1"])
        pg = {"cont": 1} if lvl == "p" else {}
        bg = {"cont": 1} if lvl == "b1" else {}
        sh = shape([blk([1, 1], conc=rnd.choice([1, 2]), g=bg)], pg=pg)
        res.append(scn(sh, "free", {}, hold=["b1.s1.a1"], holduntil={"%s.cont.a1" % lvl: rnd.choice([4, 6, 9])}, tag="cont-keeps",
                       contdelay=(100, 100, -2, -1)[i % 4], waitms=9000))      # -1: Delay unset, -2: a negative Delay (both mean "back to back")
    # the plan's continuous checks go on while the SECOND block executes: an action of block 2 is held until the plan's
    # check has been invoked far more often than block 1 gave it time for
    for i in range(max(1, n // 2)):
        sh = shape([blk([1], g=rnd.choice([{}, {"cont": 1}])), blk([1, 1], conc=rnd.choice([1, 2]))], pg={"cont": 1})
        res.append(scn(sh, "free", {}, hold=["b2.s1.a1"], holduntil={"p.cont.a1": rnd.choice([14, 20])}, tag="cont-keeps-block2", contdelay=100, latmax=100, waitms=9000))
    return res


def fam_multi(rnd, n):
    """Several plans at once on one Workstream (the clauses are evaluated per plan)."""
    res = []
    for i in range(n):
        ns = rnd.choice([3, 4, 5])
        sh = shape([blk([rnd.choice([1, 2]) for _ in range(ns)], conc=rnd.choice([1, 2, 3]), tol=rnd.choice([0, 1, -1]),
                        g=rnd.choice([{}, {"cont": 1}, {"pre": 1, "deferred": 1}])), blk([1, 1], conc=2)],
                   pg=rnd.choice([{}, {"cont": 1}, {"pre": 1, "post": 1}]), retries=rnd.choice([0, 1]))
        res.append(scn(sh, "free", rand_outcomes(rnd, sh, 0.1, 0.1), nplans=rnd.choice([3, 4]), tag="multi", latmax=rnd.choice([200, 1000]), waitms=6000))
    return res


def fam_multi_tol(rnd, n):
    """Several plans at once on one Workstream, each with its own failing sequences and its own tolerance:
    what one plan's block counts and decides must not depend on the failures of the others. Every plan has
    its own outcome script (keys "<plan>#<action>"); slow first actions keep the blocks overlapping."""
    res = []
    for i in range(n):
        ns = rnd.choice([3, 4, 5])
        tol = rnd.choice([0, 1, 1, 2])
        conc = rnd.choice([1, 1, 2])
        sh = shape([blk([1] * ns, conc, tol)], retries=0)
        npl = rnd.choice([2, 3])
        out, lat = {}, {}
        for pl in range(npl):
            # exactly tol failures (the block must go on and complete), tol + 1 (must stop and fail), or none
            nfail = rnd.choice([0, tol, tol, tol + 1, tol + 1])
            for q in rnd.sample(range(1, ns + 1), min(nfail, ns)):
                out["%d#b1.s%d.a1" % (pl, q)] = ["perm"]
            for q in range(1, ns + 1):
                lat["%d#b1.s%d.a1" % (pl, q)] = [rnd.choice([300, 1500, 4000])]
        res.append(scn(sh, "free", out, lat=lat, nplans=npl, tag="multi-tol", waitms=6000))
    return res


def fam_poll(rnd, n):
    """Plans run under a polling reader and a slow store (persist-before-act, monotone reads)."""
    res = []
    for i in range(n):
        ns = rnd.choice([2, 3])
        sh = shape([blk([rnd.choice([1, 2]) for _ in range(ns)], conc=rnd.choice([1, 2]), tol=rnd.choice([0, 1]), g=rnd.choice([{}, {"pre": 1}, {"post": 1, "deferred": 1}])),
                    blk([2])], pg=rnd.choice([{}, {"pre": 1}, {"deferred": 1}]), retries=rnd.choice([0, 1, 2]))
        res.append(scn(sh, "free", rand_outcomes(rnd, sh, 0.2, 0.08), poll=True, pollstatus=(i % 3 == 2), slowstore=rnd.choice([0, 100, 300]), tag="poll", latmax=600, waitms=8000))
    return res


def fam_crash(rnd, n, crashmax=14, double=0, fn=True, flip=False):
    """Crash-point enumeration over varied executions: failing plans, tolerated failures,
    check failures, bypasses, concurrency; outcomes a function of the action (first script
    element repeated) so that the outcome of the uninterrupted run is comparable."""
    res = []
    for i in range(n):
        kind = rnd.choice(["plain", "plain", "fail", "tol", "checks", "checks", "cont", "bypass", "conc"])
        pg, bg, out = {}, {}, {}
        ns, conc, tol, na = 2, 1, 0, 2
        if kind == "fail":
            out["b1.s%d.a%d" % (rnd.randint(1, 2), rnd.randint(1, 2))] = ["perm"]
        elif kind == "tol":
            ns, tol = 3, 1
            out["b1.s1.a2"] = ["perm"]
            if rnd.random() < 0.5:
                out["b1.s3.a1"] = ["perm"]
        elif kind == "checks":
            for g in ("pre", "post", "deferred"):
                if rnd.random() < 0.6:
                    pg[g] = 1
                if rnd.random() < 0.6:
                    bg[g] = 1
            if rnd.random() < 0.3:
                cands = ["p.%s.a1" % g for g in pg] + ["b1.%s.a1" % g for g in bg]
                if cands:
                    out[rnd.choice(cands)] = ["perm"]
        elif kind == "cont":
            if rnd.random() < 0.5:
                pg["cont"] = 1
            else:
                bg["cont"] = 1
            pg["deferred"] = 1
        elif kind == "bypass":
            if rnd.random() < 0.5:
                pg["bypass"] = 1
            else:
                bg["bypass"] = 1
            if rnd.random() < 0.5:
                out[("p" if "bypass" in pg else "b1") + ".bypass.a1"] = ["perm"]
        elif kind == "conc":
            ns, conc = rnd.choice([3, 4]), 2
            if rnd.random() < 0.5:
                out["b1.s2.a1"] = ["perm"]
        blocks = [blk([na] * ns, conc, tol, g=bg)]
        if rnd.random() < 0.6:
            blocks.append(blk([1]))
        sh = shape(blocks, pg=pg, retries=rnd.choice([0, 0, 1]))
        if sh["retries"] and rnd.random() < 0.5:
            a = rnd.choice(seq_actions(sh))
            if a not in out:
                out[a] = ["tr", "ok"] if not fn else out.get(a, ["ok"])
        extra = {}
        if flip:
            # the answer of one check action changes across the restart
            cas = check_actions(sh)
            if cas:
                a = rnd.choice(cas)
                o2 = dict(out)
                o2[a] = ["ok"] if out.get(a, ["ok"])[0] != "ok" else ["perm"]
                extra["out2"] = o2
        res.append(scn(sh, "free", out, crash="sample", crashmax=crashmax, crash2max=double, fn=fn, tag="crash-" + kind + ("-flip" if flip else ""), latmax=100, contdelay=300, waitms=5000, **extra))
    return res


def fam_crash_order(rnd, n, crashmax=16):
    """Crash points of plans whose block fails with blocks still behind it: the gate between blocks (and the
    verdict of the plan) must also hold in the process that resumes the plan. Deferred checks at plan and block
    level widen the window between the failure becoming durable and the final plan write."""
    res = []
    for i in range(n):
        nb = rnd.choice([2, 3])
        fb = rnd.randint(1, nb - 1)            # the failing block, never the last one
        pg = {"deferred": 1} if rnd.random() < 0.8 else {}
        blocks, out = [], {}
        for b in range(1, nb + 1):
            g = {}
            if b == fb and rnd.random() < 0.4:
                g["deferred"] = 1
            if b == fb and rnd.random() < 0.3:
                g["post"] = 1
            blocks.append(blk([rnd.choice([1, 2])], 1, 0, g=g))
        how = rnd.choice(["act", "act", "post"]) if "post" in blocks[fb - 1]["g"] else "act"
        if how == "act":
            out["b%d.s1.a%d" % (fb, rnd.randint(1, blocks[fb - 1]["seqs"][0]))] = ["perm"]
        else:
            out["b%d.post.a1" % fb] = ["perm"]
        sh = shape(blocks, pg=pg, retries=0)
        res.append(scn(sh, "free", out, crash="sample", crashmax=crashmax, crash2max=0, fn=True, tag="crash-order", latmax=100, contdelay=300, waitms=5000))
    return res


def fam_failwrite(rnd, n):
    """A durable write fails (injected at write k of the run, k sampled over the whole run). The engine is fail-stop:
    the plan runs in a child process, which must not act on the change that could not be stored; afterwards the
    plan is recovered from what is on disk. Shapes are strictly sequential (concurrency 1, single-action groups,
    no continuous checks) so that nothing can legitimately follow the failed write."""
    res = []
    for i in range(n):
        nb = rnd.choice([1, 1, 2])
        pg = {g: 1 for g in ("pre", "post", "deferred") if rnd.random() < 0.35}
        blocks = []
        for b in range(nb):
            g = {x: 1 for x in ("pre", "post", "deferred") if rnd.random() < 0.3}
            blocks.append(blk([rnd.choice([1, 2]) for _ in range(rnd.choice([1, 2]))], 1, rnd.choice([0, 1]), g=g))
        sh = shape(blocks, pg=pg, retries=rnd.choice([0, 1]))
        out = {}
        if rnd.random() < 0.4:
            a = rnd.choice(seq_actions(sh))
            out[a] = ["tr", "ok"] if sh["retries"] else ["perm"]
        # two thirds of the scenarios fail the n-th write of a KIND (every kind comes round), the others a position
        # (a plan of this size makes 20-60 writes; a k beyond the last write is an ordinary run)
        kinds = ["act/Running", "act/Running+att", "act/Completed", "act/Running", "seq/Running", "seq/Completed", "blk/Running", "blk/Completed",
                 "chk/Running", "chk/Completed", "plan/Running", "plan/Completed", "act/Failed", "plan/Failed", "blk/Failed", "seq/Failed"]
        if i % 3 != 2:
            fail = dict(failkind=kinds[(i - i // 3) % len(kinds)], failnth=rnd.choice([1, 1, 2, 3]))
        else:
            fail = dict(failat=rnd.randint(1, 14) if rnd.random() < 0.5 else rnd.randint(1, 45))
        s = scn(sh, "free", out, fn=True, tag="failwrite", latmax=100, waitms=5000, **fail)
        s["kind"] = "failwrite"
        res.append(s)
    return res


def fam_api(rnd, n, races=6):
    """API histories: sequences over Submit/Start/Wait/Status/Plan on known and unknown ids,
    racing Starts, stale submissions."""
    ops = ["start", "wait", "plan", "status", "start:unknown", "wait:unknown", "plan:unknown", "status:unknown", "submit", "statusbrk", "waitto"]
    res = []
    tiny = shape([blk([1])])
    for i in range(n):
        L = rnd.choice([2, 3, 4, 5])
        h = [rnd.choice(ops) for _ in range(L)]
        if rnd.random() < 0.8:
            h.insert(rnd.randint(0, len(h)), "submit")
        res.append({"kind": "api", "shape": tiny, "mode": "free", "out": {}, "api": h, "tag": "api-history", "lat": {"b1.s1.a1": [rnd.choice([100, 1500])]}})
    for i in range(races):
        k = rnd.choice([2, 3, 4, 8])
        res.append({"kind": "api", "shape": shape([blk([1, 1], conc=2)]), "mode": "free", "out": {}, "api": ["submit", "race%d" % k, "wait", "start", "plan"],
                    "tag": "api-race", "lat": {"b1.s1.a1": [rnd.choice([200, 2000])]}})
    res.append({"kind": "api", "shape": tiny, "mode": "free", "out": {}, "api": ["submit", "sleep:60", "start", "plan", "wait"], "maxsubmitms": 25, "tag": "api-stale"})
    res.append({"kind": "api", "shape": tiny, "mode": "free", "out": {}, "api": ["submit", "start", "wait", "start", "race3", "plan"], "tag": "api-restart"})
    # a plugin with an invalid RetryPolicy: the registry refuses it - or, if it takes it, starting a plan that uses it does not end the process
    for bp in ("negrand", "bigrand", "zerointerval", "mult1"):
        res.append({"kind": "api", "shape": tiny, "mode": "free", "out": {"b1.s1.a1": ["tr", "ok"]}, "api": ["submit", "start", "wait", "plan"], "tag": "api-badpolicy", "badpolicy": bp})
    for lat in (3000, 8000):
        res.append({"kind": "api", "shape": tiny, "mode": "free", "out": {}, "api": ["submit", "start", "waitto", "statusbrk", "waitto", "wait", "plan"], "tag": "api-abandon", "lat": {"b1.s1.a1": [lat]}})
        res.append({"kind": "api", "shape": tiny, "mode": "free", "out": {}, "api": ["submit", "start", "statusbrk", "status", "wait"], "tag": "api-abandon", "lat": {"b1.s1.a1": [lat]}})
    res.append({"kind": "api", "shape": tiny, "mode": "free", "out": {}, "api": ["submit", "start", "wait", "start", "wait", "plan", "status", "start", "wait"], "tag": "api-restart2"})
    res.append({"kind": "api", "shape": tiny, "mode": "free", "out": {}, "api": ["submit", "sleep:60", "start", "wait", "start", "wait", "status"], "maxsubmitms": 25, "tag": "api-stale2"})
    return res


def fam_resume(rnd, n):
    """Stores holding 2-4 plans in assorted durable states (never started, Running at several
    crash points, Completed, Failed) and ages around the configured maximum (boundary -/+ 1..2 s,
    far older, brand new), recovery on and off."""
    res = []
    for i in range(n):
        maxage = rnd.choice([1800, 1800, 600, 60])
        zero = i % 9 == 8      # WithMaxLastUpdate(0): whatever is Running is older than the maximum
        members = []
        for _ in range(rnd.choice([2, 3, 3, 4])):
            kind = rnd.choice(["plain", "fail", "checks", "cont", "conc", "contfail"])
            pg, bg, out = {}, {}, {}
            kwhen, lat = "", {}
            ns, conc = 2, 1
            if kind == "fail":
                out["b1.s%d.a%d" % (rnd.randint(1, 2), rnd.randint(1, 2))] = ["perm"]
            elif kind == "checks":
                pg = rnd.choice([{"pre": 1}, {"pre": 1, "deferred": 1}, {"post": 1}])
                bg = rnd.choice([{}, {"pre": 1, "post": 1}, {"deferred": 1}])
            elif kind == "cont":
                pg = {"cont": 1}
            elif kind == "conc":
                ns, conc = 3, 2
            elif kind == "contfail":
                # a block fails while its own / the plan's continuous checks are in the middle of a run
                bg = rnd.choice([{"cont": 1}, {"cont": 1, "deferred": 1}])
                pg = rnd.choice([{}, {"cont": 1}])
                out["b1.s%d.a1" % rnd.randint(1, 2)] = ["perm"]
                lat = {"b1.cont.a1": [1500], "p.cont.a1": [1500]}
                kwhen = "blkfailed-chkrunning"
            sh = shape([blk([2] * ns, conc, 0, g=bg), blk([1])], pg=pg)
            kpct = rnd.choice([0, 100, 100, 15, 30, 45, 60, 75, 90])
            ages = rnd.choice([0, maxage - 2, maxage - 1, maxage + 1, maxage + 2, maxage * 3, 5])
            mode = rnd.choice(["", "", "", "start", "end"])
            if kind in ("cont", "checks") and rnd.random() < 0.5:
                mode = "notchk"     # only the Checks objects and their actions carry recent stamps
                kpct = rnd.choice([30, 45, 60, 75, 90])
                ages = rnd.choice([maxage + 2, maxage * 3])
            if kwhen:
                kpct, mode = rnd.choice([60, 75, 90]), ""
                ages = rnd.choice([maxage + 2, maxage * 3, maxage * 3, 0])
            members.append({"shape": sh, "out": out, "kpct": kpct, "ages": ages, "agemode": mode, "kwhen": kwhen, "lat": lat})
        res.append({"kind": "resume", "shape": members[0]["shape"], "mode": "free", "out": {}, "members": members, "norecovery": rnd.random() < 0.25,
                    "maxages": -1 if zero else maxage, "tag": "resume-zero" if zero else "resume", "latmax": 100, "contdelay": 300})
    return res


def fam_resume_many(rnd, n):
    """Stores holding 3-5 plans that are ALL Running at the restart (recovery has to find, read and resume every one
    of them, and come back)."""
    res = []
    for i in range(n):
        members = []
        for _ in range(rnd.choice([3, 4, 5])):
            sh = shape([blk([rnd.choice([1, 2])] * rnd.choice([1, 2]), 1, 0), blk([1])], pg=rnd.choice([{}, {}, {"pre": 1}]))
            members.append({"shape": sh, "out": {}, "kpct": rnd.choice([20, 35, 50, 65, 80]), "ages": 0, "agemode": ""})
        res.append({"kind": "resume", "shape": members[0]["shape"], "mode": "free", "out": {}, "members": members, "norecovery": False,
                    "maxages": 1800, "tag": "resume-many", "latmax": 100, "contdelay": 300})
    return res


def fam_crash_tol(rnd, n):
    """Crash points of blocks with tolerated failures (the failure count must survive a restart)."""
    res = []
    for i in range(n):
        ns = rnd.choice([3, 4])
        tol = rnd.choice([1, 1, 2])
        conc = rnd.choice([1, 1, 2])
        sh = shape([blk([rnd.choice([1, 2]) for _ in range(ns)], conc, tol), blk([1])])
        out = {}
        for s in rnd.sample(range(1, ns + 1), rnd.choice([1, tol, tol])):
            out["b1.s%d.a1" % s] = ["perm"]
        res.append(scn(sh, "free", out, crash="sample", crashmax=12, fn=True, tag="crash-tol", latmax=100, waitms=5000))
    return res


def fam_kill(rnd, n):
    """Physical cross-validation of the logical crash points: the plan runs in a child process on a file-backed
    sqlite store and is killed with SIGKILL when its k-th durable write has been reported."""
    res = []
    for i in range(n):
        base = fam_crash(rnd, 1, fn=True)[0]
        nw = 12 + 10 * sum(len(b["seqs"]) for b in base["shape"]["blocks"])
        res.append({"kind": "kill", "shape": base["shape"], "mode": "free", "out": base["out"], "killat": rnd.randint(1, nw), "latmax": 1500,
                    "contdelay": 300, "fn": True, "tag": "kill-" + base["tag"], "waitms": 6000})
    return res


def fam_crash_conc(rnd, n):
    """Crash points of blocks with more sequences than their concurrency allows (the bound must hold in the resuming process too)."""
    res = []
    for i in range(n):
        ns = rnd.choice([3, 4, 5])
        conc = rnd.choice([1, 2, 2])
        sh = shape([blk([rnd.choice([1, 2]) for _ in range(ns)], conc, rnd.choice([0, 1, -1])), blk([1, 1], conc=2)])
        out = {}
        if rnd.random() < 0.4:
            out["b1.s%d.a1" % rnd.randint(1, ns)] = ["perm"]
        lat = {a: [rnd.choice([200, 1500, 4000])] for a in seq_actions(sh)}
        res.append(scn(sh, "free", out, lat=lat, crash="sample", crashmax=12, fn=True, tag="crash-conc2", waitms=6000))
    return res


def fam_crash_slow(rnd, n):
    """Crash points with several sequences in flight, and SLOW plugins in the resuming process (2-8 ms, earlier
    sequences slower than later ones): whatever recovery resumes must have finished before the state machine
    goes on, or the same sequence is executed twice at the same time."""
    res = []
    for i in range(n):
        ns = rnd.choice([2, 3])
        conc = rnd.choice([1, 2, 3])
        sh = shape([blk([2] * ns, conc, rnd.choice([0, 1])), blk([1])], pg=rnd.choice([{}, {"deferred": 1}]))
        lat = {}
        for q in range(1, ns + 1):
            for a in (1, 2):
                lat["b1.s%d.a%d" % (q, a)] = [rnd.choice([6000, 8000]) if q == 1 else rnd.choice([2000, 4000])]
        res.append(scn(sh, "free", {}, lat=lat, crash="sample", crashmax=10, fn=True, tag="crash-slow", waitms=8000))
    return res


def fam_crash_contfail(rnd, n):
    """Crash points of plans whose continuous checks (plan or block level) FAIL while slow sequences execute: the
    crash falls after the failed run became durable and before the sequences in flight have finished. Outcomes are
    a function of the call number only, the same in the resuming process (its runs are counted from 1 again)."""
    res = []
    for i in range(n):
        lvl = rnd.choice(["p", "p", "b1"])
        pg = {"cont": 1} if lvl == "p" else {}
        bg = {"cont": 1} if lvl == "b1" else {}
        if rnd.random() < 0.5:
            (pg if rnd.random() < 0.5 else bg)["deferred"] = 1
        ns = rnd.choice([1, 2])
        sh = shape([blk([2] * ns, conc=rnd.choice([1, 2]), tol=0, g=bg)] + ([blk([1])] if rnd.random() < 0.4 else []), pg=pg)
        lat = {a: [rnd.choice([3000, 5000])] for a in seq_actions(sh)}
        k = rnd.choice([1, 2, 3])      # passing runs before the failing one (the initial run passes)
        out = {"%s.cont.a1" % lvl: ["ok"] * k + ["perm"]}
        res.append(scn(sh, "free", out, lat=lat, crash="sample", crashmax=14, fn=False, tag="crash-contfail", contdelay=rnd.choice([300, 800]), latmax=100, waitms=8000))
    return res


def fam_crash_prefail_cont(rnd, n):
    """Every crash point of plans whose PreChecks fail while the initial run of the ContChecks of the same scope (they
    run side by side) is still in progress, at plan or at block level: a crash may find the failed PreChecks durable and
    the ContChecks - group and action - durably Running."""
    res = []
    for i in range(n):
        lvl = rnd.choice(["p", "b1"])
        g = {"pre": 1, "cont": 1}
        if rnd.random() < 0.5:
            g["deferred"] = 1
        pg = g if lvl == "p" else rnd.choice([{}, {"deferred": 1}])
        bg = g if lvl == "b1" else {}
        sh = shape([blk([1] * rnd.choice([1, 2]), conc=1, tol=0, g=bg)] + ([blk([1])] if rnd.random() < 0.5 else []), pg=pg)
        out = {"%s.pre.a1" % lvl: ["perm"]}
        lat = {"%s.cont.a1" % lvl: [rnd.choice([2000, 4000])], "%s.pre.a1" % lvl: [rnd.choice([0, 200])]}
        res.append(scn(sh, "free", out, lat=lat, crash="all", fn=True, tag="crash-prefail-cont", contdelay=300, latmax=100, waitms=8000))
    return res


def fam_crash_bypass(rnd, n):
    """Every crash point of plans with a PASSING bypass group at plan level or at the first block, deferred checks
    (and other groups) in the bypassed scope - which must stay untouched also in the resuming process - and, for a
    bypassed block, a second block that runs or fails behind it."""
    res = []
    for i in range(n):
        lvl = rnd.choice(["p", "b1", "b1"])
        others = {g: 1 for g in ("pre", "post", "deferred") if rnd.random() < 0.6}
        others["deferred"] = 1
        pg, bg = {}, {}
        if lvl == "p":
            pg = dict(others, bypass=rnd.choice([1, 2]))
        else:
            bg = dict(others, bypass=rnd.choice([1, 2]))
            if rnd.random() < 0.6:
                pg["deferred"] = 1
        blocks = [blk([1], 1, 0, g=bg), blk([rnd.choice([1, 2])], 1, 0, g=({"deferred": 1} if rnd.random() < 0.4 else {}))]
        out = {}
        if lvl == "b1" and rnd.random() < 0.6:
            out["b2.s1.a1"] = ["perm"]
        sh = shape(blocks, pg=pg)
        extra = {}
        if i % 2 == 1:
            # the bypass group FAILS (the scope runs normally) and would pass if it were asked again after the restart
            a = "%s.bypass.a1" % lvl
            out[a] = ["perm"]
            extra = {"out2": dict(out, **{a: ["ok"]}), "fn": False}
        res.append(scn(sh, "free", out, **dict(dict(crash="all", crashmax=40, fn=True, tag="crash-bypass", latmax=100, waitms=5000), **extra)))
    return res


def fam_crash_checkflip(rnd, n):
    """Every crash point of plans in which a pre-, post- or deferred check of the first block (or of the plan) FAILS
    before the crash and would PASS if it were asked again afterwards: a failure that is durable stands, the scope
    ends Failed and nothing behind it runs."""
    res = []
    for i in range(n):
        lvl = rnd.choice(["b1", "b1", "p"])
        g = rnd.choice(["post", "post", "pre", "deferred"])
        pg, bg = {}, {}
        (pg if lvl == "p" else bg)[g] = rnd.choice([1, 2])
        if rnd.random() < 0.5:
            pg.setdefault("deferred", 1)
        blocks = [blk([rnd.choice([1, 2])], 1, 0, g=bg), blk([1], 1, 0)]
        a = "%s.%s.a1" % (lvl, g)
        sh = shape(blocks, pg=pg)
        res.append(scn(sh, "free", {a: ["perm"]}, out2={a: ["ok"]}, crash="all", crashmax=40, fn=False, tag="crash-checkflip", latmax=100, waitms=5000))
    return res


def fam_crash_retry(rnd, n):
    """Every crash point of sequences whose actions have a retry budget and use it: transient failures followed by a
    success or by a permanent failure, a permanent failure at once, the budget used up. What is durable of the
    attempts at the crash decides what the resuming process may do (C09) and what the action ends as (C10)."""
    res = []
    scripts = [(1, ["perm"]), (1, ["tr", "ok"]), (1, ["tr", "perm"]), (2, ["tr", "tr", "ok"]), (2, ["tr", "perm"]), (1, ["tr", "tr"]), (2, ["perm"]), (2, ["tr", "ok"])]
    for i in range(n):
        r, sc1 = scripts[i % len(scripts)] if i < len(scripts) else rnd.choice(scripts)
        sh = shape([blk([2], 1, 0), blk([1])], pg=rnd.choice([{}, {"deferred": 1}]), retries=r)
        a = "b1.s1.a%d" % rnd.randint(1, 2)
        res.append(scn(sh, "free", {a: sc1}, crash="all", crashmax=40, fn=False, tag="crash-retry", latmax=100, waitms=5000))
    return res


def fam_crash_continit(rnd, n):
    """Every crash point of plans whose continuous checks (block or plan level, next to pre-checks) are SLOW and FAIL in
    their very first run: the crash lands inside the initial run; the process that resumes the plan owes that run, and
    nothing of the scope may be invoked before it has been made and passed."""
    res = []
    for i in range(n):
        lvl = rnd.choice(["b1", "b1", "p"])
        pg, bg = {}, {}
        g = pg if lvl == "p" else bg
        g["cont"] = 1
        if rnd.random() < 0.7:
            g["pre"] = 1
        if rnd.random() < 0.4:
            pg.setdefault("deferred", 1)
        sh = shape([blk([1, 1], 1, 0, g=bg)], pg=pg)
        a = "%s.cont.a1" % lvl
        out = {a: ["perm"]} if i % 3 != 2 else {}
        lat = {a: [3000]}
        res.append(scn(sh, "free", out, lat=lat, crash="all", crashmax=40, fn=True, tag="crash-continit", latmax=100, contdelay=300, waitms=6000))
    return res


def fam_crash_planpost(rnd, n):
    """Every crash point of plans with SLOW plan-level post-checks that fail (two thirds) or pass, with and without plan
    deferred checks behind them: the crash lands inside the post-checks; the process that resumes the plan owes them."""
    res = []
    for i in range(n):
        pg = {"post": rnd.choice([1, 2])}
        if i % 2 == 1:
            pg["deferred"] = 1
        sh = shape([blk([1], 1, 0, g=rnd.choice([{}, {"post": 1}]))] + ([blk([1])] if rnd.random() < 0.4 else []), pg=pg)
        out = {"p.post.a1": ["perm"]} if i % 3 != 2 else {}
        lat = {"p.post.a1": [3000], "p.post.a2": [1500]}
        res.append(scn(sh, "free", out, lat=lat, crash="all", crashmax=40, fn=True, tag="crash-planpost", latmax=100, waitms=6000))
    return res


def fam_two_failures(rnd, n):
    """Two stages of one plan fail: continuous checks (at run 2-4, while a slow sequence executes) and the deferred
    checks, or post-checks and deferred checks. A continuous-check failure is reported as such at plan level."""
    res = []
    for i in range(n):
        first = rnd.choice(["cont", "cont", "post"])
        pg = {first: 1, "deferred": 1}
        sh = shape([blk([1, 1], 1, 0)], pg=pg)
        out = {"p.deferred.a1": ["perm"]}
        if first == "cont":
            out["p.cont.a1"] = ["ok"] * rnd.choice([1, 2, 3]) + ["perm"]
        else:
            out["p.post.a1"] = ["perm"]
        lat = {a: [rnd.choice([2500, 4000])] for a in seq_actions(sh)}
        res.append(scn(sh, "free", out, lat=lat, tag="two-failures", contdelay=rnd.choice([200, 400]), latmax=100, waitms=6000))
    return res


def fam_crash_deferred(rnd, n):
    """Crash points around deferred checks that pass or fail, at plan and block level; the answer of a check may
    change across the restart (a deferred group that has run is not run again)."""
    res = []
    for i in range(n):
        pg = {"deferred": rnd.choice([1, 2])}
        bg = {"deferred": 1}
        if rnd.random() < 0.4:
            pg["post"] = 1
        if rnd.random() < 0.4:
            bg["post"] = 1
        sh = shape([blk([1, 1], 1, 0, g=bg), blk([1], g=rnd.choice([{}, {"deferred": 1}]))], pg=pg)
        out = {}
        x = rnd.random()
        if x < 0.35:
            out["p.deferred.a1"] = ["perm"]
        elif x < 0.7:
            out["b1.deferred.a1"] = ["perm"]
        elif x < 0.8:
            out["b1.s2.a1"] = ["perm"]
        o2 = dict(out)
        for a in list(out):
            if "deferred" in a and rnd.random() < 0.7:
                o2[a] = ["ok"]
        res.append(scn(sh, "free", out, out2=o2, crash="all", fn=False, tag="crash-deferred", latmax=100, waitms=5000))
    return res
