"""C15: Exists / Search / List. spec/Vault.tla computes, for stores of 0..4 plans in assorted statuses,
groups and submission orders, the expected answer of Exists, of Search for every filter combination
(0,1,2 values per field) and of List for limits 0,1,n,n+1; the harness (TestVault, VH_PROP=C15) asks the
real vaults, drains every stream with a time-out, and for cosmosdb additionally interprets the generated
query text against the model store (the fake client evaluates only the id filter and no ordering)."""
import vaultlib

ASSUME = ["spec/Vault.tla is the reference semantics (Matches / Ordered / ListRes)",
          "List limit 0 means no limit (documented on cosmosdb reader.List; both implementations apply a limit only when it is > 0)",
          "results are compared as sequences of plan ids; of the other ListResult fields only the status is looked at, and only after an UpdatePlan one of whose storage operations the cosmosdb fake refused: Read and List must then tell the same status",
          "plans get distinct submit times (down to 1 ns apart)",
          "cosmosdb over the fake client decides: Exists, stream closure, id-only searches (as sets), supersets/subsets for mixed filters, List counts; status/group predicates and ordering are decided on the "
          "query text of VerifBuildSearchQuery by an interpreter of the generated subset (unparseable text => counted inconclusive, never a violation); the List query text is not exposed",
          "a stream that delivers nothing for 5 s without closing counts as never closed"]


def run(prop, tier, seed, replay=None):
    quick = tier == "quick"
    gens = [dict(cfg="VaultC15Bulk.cfg", consts={"Groups": "{0,1,2}"} if quick else {"CIds": '{"p1","p2","p3"}', "MaxVer": 3, "Groups": "{0,1,2}"}, timeout=1500),
            dict(cfg="VaultC15Cover.cfg", consts={} if quick else {"InitVers": "{0,1,2}", "FMax": 3}, timeout=1500),
            dict(cfg="VaultC15Seq.cfg", consts={"MaxLen": 3 if quick else 4}, timeout=1500),
            dict(cfg="VaultC15UpdFail.cfg", consts={"MaxLen": 3 if quick else 4}, timeout=1500),
            dict(cfg="VaultC15Sim.cfg", simulate="num=%d" % (200 if quick else 5000), depth=31, timeout=200 if quick else 900)]
    rule = ("for every abstract store over %d creatable ids (all statuses x groups x submission orders) Exists of every id, Search with EVERY filter combination of 0..2 ids x 0..2 groups x 0..2 statuses and List with every limit 0..n+1; "
            "a transition cover and every history of length %d with Exists/Search/List interleaved with Create/Delete/UpdatePlan; seeded random histories of length 30 over 4 creatable ids; every stream drained with a time-out" % (2 if quick else 3, 3 if quick else 4))
    return vaultlib.run(prop, tier, seed, gens, rule, ASSUME, replay)
