"""C13: storage round trip. spec/Vault.tla generates Create/Update*/Read/Delete histories; the
harness (TestVault, VH_PROP=C13) replays them on sqlite (in memory) and cosmosdb (over its fake
client) and compares every Read, field by field, with the plan the model says was last written."""
import vaultlib

ASSUME = ["spec/Vault.tla is the reference semantics (last writer wins per object; Create writes every object; Update* writes exactly one object)",
          "value fidelity is as good as the value classes of the replay (harness/c13_vault_test.go): names ASCII/Unicode/long/quotes, nil|v7 keys and group, nil|empty|bytes meta, "
          "durations 0|ns, tolerances -1|0|k, typed value and pointer requests and responses, every Status and FailureReason, zero|ns times after 1970, 0..3 attempts with wrapped errors",
          "nil and empty Meta are taken as equal; typed requests/responses are equal when their Go type and JSON value are equal (nil and empty slices/maps are the same)",
          "cosmosdb is the vault code over the package's fake client, which ignores ORDER BY c.pos: the order of actions inside one container is not decidable there (counted in replay_cosmos_action_order_undecided)",
          "the reply of Update*/Delete for an id that does not exist is not specified by the statement (the store must stay unchanged)"]


def run(prop, tier, seed, replay=None):
    quick = tier == "quick"
    gens = [dict(cfg="VaultC13Seq.cfg", consts={"MaxLen": 3 if quick else 4}, timeout=1500),
            dict(cfg="VaultC13Cover.cfg", consts={"MaxUpd": 1} if quick else {"MaxUpd": 2, "ShapeNames": '{"S2","S4"}'}, timeout=1500),
            dict(cfg="VaultC13Sim.cfg", simulate="num=%d" % (250 if quick else 4000), depth=25, timeout=200 if quick else 900)]
    rule = ("every Create/Update*/Read/Delete history of length %d over 2 creatable ids + 1 never created id and shapes S1,S2; a transition cover of the abstract store "
            "(one history per (store, operation) pair, shapes S2,S3,S4, every object updated); seeded random histories of length 24 over 4 shapes and 4 ids; "
            "every Read, and a Read of every id at the end of every history, compared field by field on both vault implementations" % (3 if quick else 4))
    return vaultlib.run(prop, tier, seed, gens, rule, ASSUME, replay)
