"""Shared machinery of /verif/check: build the harness from /repo's working tree, run scenario
jobs in child processes, validate the recorded traces with TLC (EngineTrace.tla), classify
clause hits against known_findings.json, write evidence."""
import json, os, re, shutil, subprocess, sys, tempfile, time, glob, collections, random

VERIF = os.path.dirname(os.path.dirname(os.path.abspath(__file__)))
REPO = os.environ.get("VERIF_REPO", "/repo")
SPEC = os.path.join(VERIF, "spec")
HARNESS = os.path.join(VERIF, "harness")
BIN = os.path.join(VERIF, "bin")
WORK = os.path.join(VERIF, "work")
TLA_CP = "/opt/veriftools/tla/tla2tools.jar:/opt/veriftools/tla/CommunityModules-deps.jar"
NCPU = os.cpu_count() or 4


class Infra(Exception):
    """Inconclusive infrastructure outcome: exit 2, never a violation."""


def goenv():
    e = dict(os.environ)
    e["GOFLAGS"] = "-mod=mod"
    e["GOPROXY"] = "off"
    e.pop("GOTOOLCHAIN", None)   # the repository needs the cached go1.24.0 toolchain (auto switch)
    e.pop("GOSUMDB", None)
    return e


def log(*a):
    print(*a, file=sys.stderr, flush=True)


def build_harness():
    """go test -c -tags verif of the harness module against the repository's current working tree.
    With VERIF_REPO set (evaluation of a seeded change in a scratch worktree) the harness is copied and
    built in a private directory, so that several evaluations can run side by side."""
    global BIN
    os.makedirs(WORK, exist_ok=True)
    src = HARNESS
    if REPO != "/repo":
        import hashlib
        h = hashlib.sha1(REPO.encode()).hexdigest()[:10]
        src = os.path.join(WORK, "alt", h, "harness")
        BIN = os.path.join(WORK, "alt", h, "bin")
        shutil.rmtree(src, ignore_errors=True)
        shutil.copytree(HARNESS, src)
    os.makedirs(BIN, exist_ok=True)
    gomod = os.path.join(src, "go.mod")
    txt = open(gomod).read()
    txt2 = re.sub(r"replace github.com/element-of-surprise/coercion => .*", "replace github.com/element-of-surprise/coercion => " + REPO, txt)
    if txt2 != txt:
        open(gomod, "w").write(txt2)
    shutil.copyfile(os.path.join(REPO, "go.sum"), os.path.join(src, "go.sum"))
    out = os.path.join(BIN, "harness.test")
    t0 = time.time()
    p = subprocess.run(["go", "test", "-c", "-tags", "verif", "-o", out, "."], cwd=src, env=goenv(),
                       stdout=subprocess.PIPE, stderr=subprocess.STDOUT, text=True)
    if p.returncode != 0:
        raise Infra("harness build failed:\n" + p.stdout[-4000:])
    log("[build] harness.test built in %.1fs" % (time.time() - t0))
    return out


_SCRATCH = []


def _sweep():
    if os.environ.get("VERIF_KEEP"):
        return
    for d in _SCRATCH:
        shutil.rmtree(d, ignore_errors=True)


def scratch(prefix):
    """A private directory under work/; whatever a check leaves behind is removed when the process ends."""
    os.makedirs(WORK, exist_ok=True)
    d = tempfile.mkdtemp(prefix=prefix + ".", dir=WORK)
    if not _SCRATCH:
        import atexit
        atexit.register(_sweep)
    _SCRATCH.append(d)
    return d


# --------------------------------------------------------------------------------------
# running scenario jobs

def run_jobs(scenarios, nproc=None, per_scn_timeout=20.0, tag="job", test="^TestJob$"):
    """Run scenarios in child processes (round-robin split). A child that reports a hang has
    ended itself; it is restarted after the hung scenario. Returns (events, info)."""
    binp = os.path.join(BIN, "harness.test")
    nproc = max(1, min(nproc or min(8, NCPU), len(scenarios)))
    d = scratch(tag)
    parts = [scenarios[i::nproc] for i in range(nproc)]
    procs = []
    info = {"hung": [], "errors": [], "died": [], "children": nproc, "dir": d}

    def start(i, startidx):
        jf = os.path.join(d, "job%d.json" % i)
        of = os.path.join(d, "out%d.ndjson" % i)
        json.dump({"out": of, "start": startidx, "scenarios": parts[i]}, open(jf, "w"))
        env = goenv()
        env["VH_JOB"] = jf
        lf = open(os.path.join(d, "child%d.log" % i), "ab")
        p = subprocess.Popen([binp, "-test.run", test, "-test.timeout", "0"], env=env, cwd=d, stdout=subprocess.PIPE, stderr=lf)
        return p

    state = []
    for i in range(nproc):
        state.append({"i": i, "p": start(i, 0), "next": 0, "done": False})
    for st in state:
        while not st["done"]:
            p = st["p"]
            budget = per_scn_timeout * max(1, len(parts[st["i"]]) - st["next"]) + 30
            try:
                out, _ = p.communicate(timeout=budget)
            except subprocess.TimeoutExpired:
                p.kill()
                out, _ = p.communicate()
                info["errors"].append("child %d timed out after %.0fs" % (st["i"], budget))
                st["done"] = True
                out = out or b""
            text = out.decode("utf8", "replace")
            last = st["next"] - 1
            hang = None
            for line in text.splitlines():
                m = re.match(r"SCN-(DONE|HANG|ERROR) (\d+) (-?\d+)(.*)", line)
                if not m:
                    continue
                idx = int(m.group(2))
                last = max(last, idx)
                if m.group(1) == "HANG":
                    hang = idx
                    info["hung"].append(parts[st["i"]][idx]["id"])
                elif m.group(1) == "ERROR":
                    info["errors"].append("scenario %s: %s" % (m.group(3), m.group(4).strip()))
            if st["done"]:
                break
            if hang is not None and hang + 1 < len(parts[st["i"]]):
                st["next"] = hang + 1
                st["p"] = start(st["i"], hang + 1)
                continue
            if p.returncode not in (0, 3):
                # the process died (panic, fatal): note which scenario was running
                idx = last + 1
                if idx < len(parts[st["i"]]):
                    info["died"].append({"scn": parts[st["i"]][idx]["id"], "rc": p.returncode, "tail": text[-1500:],
                                         "prev": parts[st["i"]][idx - 1]["id"] if idx > 0 else None})
                    if idx + 1 < len(parts[st["i"]]):
                        st["next"] = idx + 1
                        st["p"] = start(st["i"], idx + 1)
                        continue
                else:
                    info["errors"].append("child %d exit %s: %s" % (st["i"], p.returncode, text[-500:]))
            st["done"] = True
    events = []
    info["parts"] = parts
    for i in range(nproc):
        of = os.path.join(d, "out%d.ndjson" % i)
        if os.path.exists(of):
            with open(of) as f:
                for line in f:
                    line = line.strip()
                    if line:
                        e = json.loads(line)
                        e["_c"] = i
                        events.append(e)
    return events, info


def split_traces(events):
    """Group events into traces keyed (scn, pl, tr); each starts with its Config line, ends at End."""
    groups = collections.OrderedDict()
    for e in events:
        k = (e.get("scn", -1), e.get("pl", 0), e.get("tr", 0))
        groups.setdefault(k, []).append(e)
    traces = collections.OrderedDict()
    for k, evs in groups.items():
        evs.sort(key=lambda e: (e["_c"], e["seq"]))
        cfg = [i for i, e in enumerate(evs) if e["ev"] == "Config"]
        if not cfg:
            continue
        evs = evs[cfg[0]:]
        out = []
        for e in evs:
            if e["ev"] == "End":
                break
            out.append(e)
        traces[k] = out
    return traces


def add_deaths(traces, info):
    """A scenario whose child process died gets a ProcDied event at the end of its first trace."""
    for dd in info.get("died", []):
        for k in traces:
            if k[0] == dd["scn"]:
                last = traces[k][-1]
                traces[k].append({"ev": "ProcDied", "scn": k[0], "pl": k[1], "tr": k[2], "ep": last.get("ep", 1), "seq": last["seq"] + 1,
                                  "rc": dd["rc"], "tail": dd["tail"][-600:], "_c": last["_c"]})
                break
        else:
            # Nothing of this scenario was recorded before the death: the process died between two scenarios, i.e. in
            # something the previous scenario of this child left running. The death is put at the end of that
            # scenario's last trace; with no previous scenario it cannot be attributed at all (exit 2).
            prev = [k for k in traces if k[0] == dd.get("prev")] if dd.get("prev") is not None else []
            if prev:
                k = prev[-1]
                last = traces[k][-1]
                traces[k].append({"ev": "ProcDied", "scn": k[0], "pl": k[1], "tr": k[2], "ep": last.get("ep", 1), "seq": last["seq"] + 1,
                                  "rc": dd["rc"], "tail": dd["tail"][-600:], "_c": last["_c"], "late": True})
            else:
                info.setdefault("errors", []).append("child process died in scenario %s before recording anything (rc %s): %s" % (dd["scn"], dd["rc"], dd["tail"][-400:]))
    return traces


# --------------------------------------------------------------------------------------
# TLC

def run_tlc(workdir, module, cfg, workers=1, timeout=600, xmx="4g", extra=None, deque=False, simulate=None, depth=None, seed=None, light=False):
    meta = os.path.join(workdir, "meta")
    shutil.rmtree(meta, ignore_errors=True)
    cmd = ["timeout", str(int(timeout)), "java", "-XX:+UseParallelGC", "-Xmx" + xmx, "-Xss64m"]
    if light:   # many short single-worker runs side by side: keep each JVM small
        cmd += ["-XX:ParallelGCThreads=1", "-XX:TieredStopAtLevel=1", "-XX:CICompilerCount=1"]
    if deque:
        cmd.append("-Dtlc2.tool.queue.IStateQueue=StateDeque")
    cmd += ["-cp", TLA_CP, "tlc2.TLC", "-workers", str(workers), "-metadir", meta, "-noGenerateSpecTE", "-config", cfg]
    if simulate:
        cmd += ["-simulate", simulate]
    if depth:
        cmd += ["-depth", str(depth)]
    if seed is not None:
        cmd += ["-seed", str(seed)]
    if extra:
        cmd += extra
    cmd.append(module)
    t0 = time.time()
    p = subprocess.run(cmd, cwd=workdir, stdout=subprocess.PIPE, stderr=subprocess.STDOUT, text=True)
    out = p.stdout
    res = {"rc": p.returncode, "out": out, "wall": time.time() - t0, "cmd": " ".join(cmd)}
    m = re.search(r"(\d+) states generated, (\d+) distinct states found", out)
    if m:
        res["generated"], res["distinct"] = int(m.group(1)), int(m.group(2))
    return res


def copy_specs(workdir, names):
    for n in names:
        shutil.copyfile(os.path.join(SPEC, n), os.path.join(workdir, n))


TRACE_FIELDS_DROP = ("_c",)


def monitor(traces, tag="mon", keep=False):
    """Validate traces with EngineTrace.tla. Returns list of hits {clause, key, line, event, index}."""
    if not traces:
        return [], {"lines": 0, "wall": 0.0, "states": 0}
    d = scratch(tag)
    copy_specs(d, ["Props.tla", "EngineTrace.tla", "EngineTrace.cfg"])
    index = []  # global line number (1-based) -> (key, i)
    with open(os.path.join(d, "trace.ndjson"), "w") as f:
        for k, evs in traces.items():
            for i, e in enumerate(evs):
                e2 = {x: y for x, y in e.items() if x not in TRACE_FIELDS_DROP}
                f.write(json.dumps(e2, separators=(",", ":")) + "\n")
                index.append((k, i))
    r = run_tlc(d, "EngineTrace.tla", "EngineTrace.cfg", workers=1, timeout=1800)
    vf = os.path.join(d, "viol.json")
    if r["rc"] != 0 or not os.path.exists(vf):
        tail = r["out"][-3000:]
        raise Infra("TLC monitor failed (rc=%s) in %s:\n%s" % (r["rc"], d, tail))
    v = json.load(open(vf))
    if v["lines"] != len(index):
        raise Infra("monitor consumed %s of %s lines" % (v["lines"], len(index)))
    hits = []
    for c, line in v["viol"]:
        k, i = index[line - 1]
        hits.append({"clause": c, "key": k, "i": i, "event": traces[k][i]})
    stats = {"lines": len(index), "wall": r["wall"], "states": r.get("distinct", 0), "generated": r.get("generated", 0)}
    if not keep:
        shutil.rmtree(d, ignore_errors=True)
    return hits, stats


# --------------------------------------------------------------------------------------
# known findings and verdicts

def load_findings():
    p = os.path.join(VERIF, "known_findings.json")
    if not os.path.exists(p):
        return []
    return json.load(open(p)).get("findings", [])


def match_finding(findings, prop, hit, ctx):
    """A finding matches a hit when the clause is listed and its predicate (a python
    expression over the hit context) holds. Entries with status 'fixed' suppress nothing."""
    for f in findings:
        if f.get("status") == "fixed":
            continue
        if f["property"] != prop or hit["clause"] not in f["clauses"]:
            continue
        try:
            g = dict(ctx, any=any, all=all, len=len, min=min, max=max, set=set, sum=sum)
            g["__builtins__"] = {}
            if eval(f.get("when", "True"), g):
                return f
        except Exception as ex:  # a broken predicate never hides a violation
            log("[findings] predicate of %s failed: %s" % (f["id"], ex))
    return None


OUTROOT = os.environ.get("VERIF_OUTROOT", VERIF)   # evidence/ and replays/ go here (redirected when evaluating seeded changes)


def save_replay(prop, name, payload):
    d = os.path.join(OUTROOT, "replays", prop)
    os.makedirs(d, exist_ok=True)
    p = os.path.join(d, name)
    with open(p, "w") as f:
        json.dump(payload, f, indent=1)
    return p


def write_evidence(prop, tier, seed, level, coverage, wall, violations, assumptions):
    os.makedirs(os.path.join(OUTROOT, "evidence"), exist_ok=True)
    ev = {"property_id": prop, "tier": tier, "seed": int(seed), "level": level, "coverage": coverage,
          "assumptions": assumptions, "wall_s": round(wall, 2), "violations": int(violations)}
    with open(os.path.join(OUTROOT, "evidence", prop + ".json"), "w") as f:
        json.dump(ev, f, indent=1)
    if tier != "quick":
        # evidence/<id>.json always describes the LAST run; the deepest exploration made so far is kept next to it
        os.makedirs(os.path.join(OUTROOT, "evidence", "thorough"), exist_ok=True)
        with open(os.path.join(OUTROOT, "evidence", "thorough", prop + ".json"), "w") as f:
            json.dump(ev, f, indent=1)
    return ev


# --------------------------------------------------------------------------------------
# sequential components: TLC as a case generator, Go replay

def tlc_cases(module, cfg, out_path, consts=None, tag="gen", workers=1, timeout=900, simulate=None, depth=None, seed=None, extra_modules=(), prefix="CASE "):
    """Run TLC on spec/<module> with spec/<cfg> (CONSTANTS optionally overridden by regex
    substitution 'Name = value'), collect the JSON payload of every PrintT line starting with
    prefix into out_path (one per line, appended). Returns TLC stats + number of cases."""
    d = scratch(tag)
    copy_specs(d, [module] + list(extra_modules))
    txt = open(os.path.join(SPEC, cfg)).read()
    for k, v in (consts or {}).items():
        txt, n = re.subn(r"\b%s\s*=\s*[^\s]+" % re.escape(k), "%s = %s" % (k, v), txt)
        if n == 0:
            raise Infra("constant %s not found in %s" % (k, cfg))
    open(os.path.join(d, cfg), "w").write(txt)
    r = run_tlc(d, module, cfg, workers=workers, timeout=timeout, simulate=simulate, depth=depth, seed=seed)
    ok_rc = (0,) if not simulate else (0, 124, 137)
    n = 0
    with open(out_path, "a") as f:
        for line in r["out"].splitlines():
            if line.startswith('"' + prefix):
                try:
                    s = json.loads(line)
                except Exception:
                    continue
                f.write(s[len(prefix):] + "\n")
                n += 1
    if r["rc"] not in ok_rc or ("Error:" in r["out"] and not simulate):
        raise Infra("TLC %s/%s failed rc=%s:\n%s" % (module, cfg, r["rc"], r["out"][-2500:]))
    r["cases"] = n
    r["dir"] = d
    out = r.pop("out")
    r["tail"] = out[-400:]
    shutil.rmtree(d, ignore_errors=True)
    return r


def run_go_seq(test, cases_path, tag="seq", timeout=1200, env_extra=None):
    """Run one Go replay test of the harness binary on a cases file; returns its result dict."""
    binp = os.path.join(BIN, "harness.test")
    d = scratch(tag)
    outp = os.path.join(d, "result.json")
    env = goenv()
    env["VH_CASES"] = cases_path
    env["VH_OUT"] = outp
    env.update(env_extra or {})
    try:
        p = subprocess.run([binp, "-test.run", "^%s$" % test, "-test.timeout", "0"], cwd=d, env=env, stdout=subprocess.PIPE, stderr=subprocess.STDOUT, text=True, timeout=timeout)
    except subprocess.TimeoutExpired:
        raise Infra("go replay %s timed out" % test)
    if not os.path.exists(outp):
        # the replay process died: the history that killed it is a finding of the property, reported by the caller
        return {"died": True, "rc": p.returncode, "tail": p.stdout[-3000:], "cases": 0, "steps": 0, "kinds": {}, "mismatches": []}
    res = json.load(open(outp))
    res["died"] = False
    res["rc"] = p.returncode
    shutil.rmtree(d, ignore_errors=True)
    return res
