"""C18: clones are deep, definition-preserving and resubmittable. spec/Clone.tla sorts the fields of
every object kind as the statement does and gives, per option combination, the relation every
field of a clone must have to the original's; it enumerates plan shape x execution state. Harness
TestClone obtains real plans in those states from a real Workstream, clones every object with every
option combination, compares, submits, and mutates both sides to find shared memory."""
import os, time, json, shutil
import vlib, seqlib

ASSUME = ["spec/Clone.tla is the reference: definition fields (names, descriptions, plugin, request, timeout, retries, delays, concurrency, tolerance, group, meta, children and their order) equal under every option combination; ids, statuses, times, reason, attempts, submit time zero by default and equal with WithKeepState; Key and State.ETag are not listed by the statement and not demanded",
          "'stripped' is read as the zero value (nil State or a State with zero Status/Start/End; no attempts); that Validate then accepts the clone is checked by a real Submit on a fresh Workstream, for plan clones made without WithKeepState",
          "secure-tagged parts of request/response are only demanded to be equal with WithKeepSecrets and not to carry the original value otherwise (C17 covers scrubbing)",
          "running snapshots are read through Workstream.Plan while a plugin call of the plan is blocked; submitted plans are read back from the store (using the submitted object itself is documented as undefined)",
          "shared memory is searched by mutation through exported fields only (unexported planID/register cannot be reached from outside the package)"]


def run(prop, tier, seed, replay=None):
    t0 = time.time()
    vlib.build_harness()
    d = vlib.scratch("c18")
    cases = os.path.join(d, "cases.ndjson")
    quick = tier == "quick"
    consts = {"MaxB": 2, "MaxS": 2, "MaxA": 2, "GLevel": 2} if quick else {"MaxB": 2, "MaxS": 3, "MaxA": 3, "GLevel": 2}
    stats = [vlib.tlc_cases("Clone.tla", "CloneCases.cfg", cases, consts, tag="c18gen", workers=1, timeout=1500)]
    if replay:
        ex = json.loads(json.load(open(replay)).get("example", {}).get("hist", "{}"))
        if not ex:
            raise vlib.Infra("replay file has no case")
        keep = [l for l in open(cases) if (lambda c: c["shape"] == ex["shape"] and c["st"] == ex["st"] and c["at"] == ex["at"])(json.loads(l))]
        if not keep:
            consts = {"MaxB": 2, "MaxS": 3, "MaxA": 3, "GLevel": 2}
            os.remove(cases)
            vlib.tlc_cases("Clone.tla", "CloneCases.cfg", cases, consts, tag="c18gen", workers=1, timeout=1500)
            keep = [l for l in open(cases) if (lambda c: c["shape"] == ex["shape"] and c["st"] == ex["st"] and c["at"] == ex["at"])(json.loads(l))]
        open(cases, "w").write("".join(keep))
        seed = ex.get("seed", seed)
    # the values of the definition fields (texts, delays, retries, keys, request contents) are drawn from the seed;
    # the thorough tier replays every case with three value seeds
    seeds = [seed] if quick or replay else [seed, seed + 1000, seed + 2000]
    results = []
    for sd in seeds:
        res = vlib.run_go_seq("TestClone", cases, tag="c18go", timeout=3000, env_extra={"VH_SEED": str(sd)})
        sk = (res.get("extra") or {}).get("skipped", 0)
        if not res.get("died") and sk > max(3, res.get("cases", 0) // 50):
            raise vlib.Infra("C18: %d of %d cases could not be brought into their execution state: %s" % (sk, res.get("cases", 0), (res.get("extra") or {}).get("skip_examples")))
        results.append(res)
    extra = {"replay_extra": [r.get("extra", {}) for r in results]}
    samples = []
    with open(cases) as f:
        for i, line in enumerate(f):
            if i in (3, 1400, 3900):
                c = json.loads(line)
                samples.append({"shape": c["shape"], "st": c["st"], "at": c["at"], "submit": c["submit"]})
    rc = seqlib.finish(prop, tier, seed, t0, results, stats,
                       "every plan shape with 1-%d blocks x 1-%d sequences x 1-%d actions x %d check-group patterns at plan and at block level x retry, in the states fresh | submitted | running snapshot (blocked action first/last) | completed | failed (failing action first/last); every object of every kind cloned with default | keep-state | keep-secrets | both and compared field by field with the model's relation table, mutation of clone and of original for shared memory, Submit of the state-stripping plan clones on a fresh Workstream; distinct = distinct (shape, state, position) replayed (values drawn from the seed)"
                       % (consts["MaxB"], consts["MaxS"], consts["MaxA"], 3 if consts["GLevel"] == 1 else 6),
                       samples, ASSUME, extra=extra, exhaustive=False)
    shutil.rmtree(d, ignore_errors=True)
    return rc
