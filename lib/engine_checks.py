"""Checks for the engine properties C01..C12: drive the real engine with scenario families,
record traces, let TLC evaluate the clauses of spec/Props.tla on every step of every trace
(spec/EngineTrace.tla), and model-check spec/Engine.tla with the same clauses."""
import json, os, random, time, collections, shutil
import vlib, families as F
from vlib import log

# property -> (families(rnd, k) -> scenarios, description of what is driven)
def _fams_C01(r, k): return F.fam_order(r, 60 * k) + F.fam_tolerance(r, 60 * k) + F.fam_gates(r, 60 * k) + F.fam_cont(r, 24 * k)
def _fams_C02(r, k): return F.fam_tolerance(r, 80 * k) + F.fam_order(r, 40 * k) + F.fam_multi(r, 10 * k)
def _fams_C03(r, k): return F.fam_tolerance(r, 120 * k) + F.fam_gates(r, 40 * k) + F.fam_cont(r, 20 * k) + F.fam_crash_tol(r, 10 * k)
def _fams_C04(r, k): return F.fam_tolerance(r, 50 * k) + F.fam_gates(r, 60 * k) + F.fam_cont(r, 50 * k) + F.fam_multi(r, 8 * k) + F.fam_order(r, 30 * k)
def _fams_C05(r, k): return F.fam_retry(r, 40 * k) + F.fam_order(r, 40 * k)
def _fams_C06(r, k): return F.fam_gates(r, 220 * k)
def _fams_C07(r, k): return F.fam_cont(r, 120 * k) + F.fam_cont_keeps(r, 6 * k) + F.fam_gates(r, 60 * k)
def _fams_C08(r, k): return F.fam_poll(r, 30 * k) + F.fam_order(r, 40 * k) + F.fam_retry(r, 20 * k, overrun=False) + F.fam_gates(r, 30 * k)
def _fams_C09(r, k): return F.fam_crash(r, 22 * k, crashmax=14, double=0, fn=False) + F.fam_crash(r, 4 * k, crashmax=6, double=3, fn=False)
def _fams_C10(r, k): return F.fam_crash(r, 22 * k, crashmax=14, double=0, fn=True) + F.fam_crash(r, 4 * k, crashmax=6, double=3, fn=True)
def _fams_C11(r, k): return F.fam_resume(r, 45 * k) + F.fam_crash(r, 6 * k, crashmax=10, double=0, fn=False)
def _fams_C12(r, k): return F.fam_api(r, 80 * k, races=10 * k) + F.fam_order(r, 20 * k)

ENGINE = {
    "C01": _fams_C01, "C02": _fams_C02, "C03": _fams_C03, "C04": _fams_C04, "C05": _fams_C05, "C06": _fams_C06,
    "C07": _fams_C07, "C08": _fams_C08, "C09": _fams_C09, "C10": _fams_C10, "C11": _fams_C11, "C12": _fams_C12,
}

ASSUMPTIONS = [
    "TLC and the CommunityModules evaluate the clauses of spec/Props.tla faithfully",
    "the recorder's sequence numbers (one mutex) order events; a durable write is logged after the vault call returned, a plugin call at the top of Execute",
    "the sqlite in-memory vault stands for the storage layer in engine scenarios (storage itself is decided by C13-C15)",
    "scenario families and model bounds are finite: shapes of up to 3 blocks / 6 sequences / 3 actions, up to 4 plans at once",
]


def trace_ctx(trace):
    cfg = trace[0]
    kinds = {d["obj"]: d["k"] for d in cfg["objs"]}
    crash = None
    for e in trace:
        if e["ev"] == "Crash":
            crash = {x["obj"]: x for x in e["snap"]}
            break
    return {"cfg": cfg, "kinds": kinds, "crash": crash, "tag": cfg.get("tag", ""), "crashk": cfg.get("crashk", -1), "crashj": cfg.get("crashj", -1),
            "mode": cfg.get("mode", "")}


def excerpt(trace, i, before=12, after=3):
    lo, hi = max(0, i - before), min(len(trace), i + after + 1)
    out = []
    for e in trace[lo:hi]:
        d = {k: v for k, v in e.items() if k not in ("objs", "blocks", "_c", "scn", "tr", "pl")}
        if "snap" in d:
            d["snap"] = ["%s=%s/%s" % (x["obj"], x["st"], x["natt"]) for x in d["snap"]]
        out.append(d)
    return out


def run_engine_check(prop, tier, seed, scenarios=None, replay=False):
    t0 = time.time()
    rnd = random.Random(seed * 7919 + int(prop[1:]))
    k = 1 if tier == "quick" else 6
    vlib.build_harness()
    if scenarios is None:
        scenarios = ENGINE[prop](rnd, k)
        import engine_model
        scenarios += engine_model.gen_scenarios(prop, 45 * k, seed)   # behaviours of Engine.tla replayed on the real engine
    for i, s in enumerate(scenarios):
        s.setdefault("id", i + 1)
        s.setdefault("seed", seed * 1000 + i)
    log("[%s] %d scenarios (%s tier, seed %d)" % (prop, len(scenarios), tier, seed))
    events, info = vlib.run_jobs(scenarios, tag=prop)
    traces = vlib.add_deaths(vlib.split_traces(events), info)
    if info["errors"]:
        raise vlib.Infra("harness errors: " + "; ".join(info["errors"][:5]))
    hits, mstats = vlib.monitor(traces, tag=prop + "mon")
    mine = [h for h in hits if h["clause"].startswith(prop + "_")]
    if os.environ.get("VERIF_DEBUG"):
        log("[debug] all hits: %s" % dict(collections.Counter(h["clause"] for h in hits)))
        seenc = set()
        for h in hits:
            if h["clause"] not in seenc and len(seenc) < 12:
                seenc.add(h["clause"])
                log("[debug] %s scn=%s tag=%s scenario=%s\n   %s" % (h["clause"], h["key"], trace_ctx(traces[h["key"]])["tag"], json.dumps({k: v for k, v in [s for s in scenarios if s["id"] == h["key"][0]][0].items() if k in ("shape", "out", "lat", "mode", "api")}),
                    "\n   ".join(json.dumps(x) for x in excerpt(traces[h["key"]], h["i"], 6, 1))))
    # a hang counts only if it reproduces in a fresh process
    hang_scn = sorted({h["key"][0] for h in mine if h["event"]["ev"] == "Hang"})
    unreproduced = []
    if hang_scn and not replay:
        again = [s for s in scenarios if s["id"] in hang_scn]
        ev2, info2 = vlib.run_jobs(again, tag=prop + "rehang")
        still = set(info2["hung"])
        unreproduced = [s for s in hang_scn if s not in still]
        mine = [h for h in mine if not (h["event"]["ev"] == "Hang" and h["key"][0] in unreproduced)]
        shutil.rmtree(info2["dir"], ignore_errors=True)
    findings = vlib.load_findings()
    byid = {s["id"]: s for s in scenarios}
    known, viol = collections.OrderedDict(), []
    for h in mine:
        tr = traces[h["key"]]
        ctx = trace_ctx(tr)
        ctx.update(event=h["event"], clause=h["clause"], scenario=byid.get(h["key"][0], {}))
        f = vlib.match_finding(findings, prop, h, ctx)
        if f:
            known.setdefault(f["id"], {"finding": f, "n": 0})["n"] += 1
        else:
            viol.append(h)
    for fid, kf in known.items():
        print("KNOWN-FINDING: property=%s %s: %s (%d hits this run)" % (prop, fid, kf["finding"]["what"], kf["n"]))
    replay_paths = []
    seen = set()
    for h in viol:
        key = (h["clause"], h["key"])
        if key in seen:
            continue
        seen.add(key)
        if len(replay_paths) >= 5:
            continue
        tr = traces[h["key"]]
        name = "%s_seed%d_scn%d_tr%d.json" % (h["clause"], seed, h["key"][0], h["key"][2])
        p = vlib.save_replay(prop, name, {"property": prop, "clause": h["clause"], "tier": tier, "seed": seed, "scenario": byid.get(h["key"][0]),
                                          "trace_key": list(h["key"]), "event_index": h["i"], "excerpt": excerpt(tr, h["i"]),
                                          "trace": [{k: v for k, v in e.items() if k != "_c"} for e in tr]})
        replay_paths.append(p)
        print("VIOLATION property=%s replay=%s" % (prop, p))
        log("  clause %s at event %s" % (h["clause"], json.dumps(excerpt(tr, h["i"], 0, 0))))
    # model -> code binding: how many generated behaviours the real engine followed to the end, and whether the
    # stored plan then equals the model's prediction (a mismatch is MODEL-DRIFT: reported, never a verdict)
    mrep = {"generated": 0, "followed": 0, "diverged": 0, "final_equal": 0, "drift": []}
    for s in scenarios:
        if s.get("mode") != "model":
            continue
        mrep["generated"] += 1
        tr = traces.get((s["id"], 0, 0))
        if tr is None:
            continue
        if any(e["ev"] == "Diverged" for e in tr):
            mrep["diverged"] += 1
            continue
        mrep["followed"] += 1
        wr = [e for e in tr if e["ev"] == "WaitRet"]
        if wr:
            real = {x["obj"]: [x["st"], x["natt"]] for x in wr[-1]["snap"]}
            model = {o: [v["st"], v["natt"]] for o, v in s["model_final"].items()}
            if real == model and wr[-1]["reason"] == s["model_reason"]:
                mrep["final_equal"] += 1
            elif len(mrep["drift"]) < 3:
                mrep["drift"].append({"scenario": s["id"], "diff": {o: [model.get(o), real.get(o)] for o in set(real) | set(model) if real.get(o) != model.get(o)},
                                        "reason": [s["model_reason"], wr[-1]["reason"]]})
    if mrep["generated"]:
        drift = mrep["followed"] - mrep["final_equal"]
        log("[%s] model behaviours replayed: %d generated, %d followed to the end, %d diverged, %d final states equal to the model's%s" % (
            prop, mrep["generated"], mrep["followed"], mrep["diverged"], mrep["final_equal"], (" MODEL-DRIFT in %d" % drift) if drift else ""))
    # code -> model binding: a sample of the recorded live traces must be behaviours of Engine.tla
    import engine_model
    conf = engine_model.conformance(traces, 12 if tier == "quick" else 120, seed) if not replay else {"checked": 0, "accepted": 0, "rejected": []}
    if conf["checked"]:
        log("[%s] trace conformance to Engine.tla: %d of %d sampled traces accepted%s" % (prop, conf["accepted"], conf["checked"],
            "" if conf["accepted"] == conf["checked"] else " MODEL-DRIFT: " + json.dumps(conf["rejected"][:1])[:400]))
    # evidence
    tags = collections.Counter(trace_ctx(t)["tag"] for t in traces.values())
    nev = sum(len(t) for t in traces.values())
    sample_keys = list(traces.keys())[:: max(1, len(traces) // 3)][:3]
    def slim(sc):
        return {k: (v if k not in ("evs", "model_final") else "...") for k, v in (sc or {}).items()}
    samples = [{"scenario": slim(byid.get(kk[0])), "trace_key": list(kk), "events": len(traces[kk]), "first_events": excerpt(traces[kk], 6, 5, 6)} for kk in sample_keys]
    model = model_stats(prop, tier, seed)
    cov = {
        "states": int(model.get("distinct", 0)) or int(mstats["states"]),
        "transitions": int(model.get("generated", 0)) or int(mstats["generated"]),
        "traces_validated_against_impl": len(traces),
        "samples": samples,
        "events_validated": nev,
        "scenarios_run": len(scenarios),
        "traces_by_family": dict(tags),
        "clauses_evaluated": sorted({c for c in CLAUSES if c.startswith(prop + "_")}),
        "hits_total_all_properties": len(hits),
        "known_findings_seen": {fid: kf["n"] for fid, kf in known.items()},
        "hung_scenarios": info["hung"], "unreproduced_hangs": unreproduced, "died": [d["scn"] for d in info["died"]],
        "monitor_wall_s": round(mstats["wall"], 2),
        "model": model,
        "model_behaviours_replayed": mrep,
        "trace_conformance_to_model": conf,
        "model_conformance": "drift" if (mrep["followed"] > mrep["final_equal"] or conf["accepted"] < conf["checked"]) else "ok",
        "exhaustive": False,
    }
    wall = time.time() - t0
    vlib.write_evidence(prop, tier, seed, "model_checking", cov, wall, len(seen), ASSUMPTIONS)
    shutil.rmtree(info["dir"], ignore_errors=True)
    log("[%s] %d traces, %d events, %d hits of this property (%d known), %.1fs" % (prop, len(traces), nev, len(mine), sum(kf["n"] for kf in known.values()), wall))
    if unreproduced and not viol:
        log("[%s] unreproduced hang(s) in scenarios %s: inconclusive" % (prop, unreproduced))
        return 2
    return 1 if viol else 0


def model_stats(prop, tier, seed):
    """Exhaustive TLC run of the engine model for this property's configuration (if present)."""
    try:
        import engine_model
    except ImportError:
        return {}
    return engine_model.check(prop, tier, seed)


CLAUSES = []
def _load_clauses():
    import re
    txt = open(os.path.join(vlib.SPEC, "Props.tla")).read()
    m = re.search(r"ClauseNames == \{(.*?)\}", txt, re.S)
    return re.findall(r'"(C\d\d_\w+)"', m.group(1))
CLAUSES = _load_clauses()
