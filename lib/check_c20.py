"""C20: builder. spec/Builder.tla generates call histories with the expected observable result
after every call; harness TestBuilder replays them on the real builder."""
import os, time, json
import vlib, seqlib

ASSUME = ["spec/Builder.tla is the reference semantics of the builder (reading: after emission every call reports an error, identity of the error is demanded only before emission)",
          "call classes: 24 (method x argument class); objects are labelled by the index of the creating call"]


def run(prop, tier, seed, replay=None):
    t0 = time.time()
    vlib.build_harness()
    d = vlib.scratch("c20")
    cases = os.path.join(d, "cases.ndjson")
    stats = []
    if replay:
        ex = json.load(open(replay)).get("example", {})
        raise vlib.Infra("replay of a single builder history: run harness TestBuilder on the history %r" % ex.get("hist"))
    quick = tier == "quick"
    stats.append(vlib.tlc_cases("Builder.tla", "BuilderSeq.cfg", cases, {"MaxLen": 3 if quick else 4}, tag="c20seq", workers=1, timeout=1500))
    stats.append(vlib.tlc_cases("Builder.tla", "BuilderCover.cfg", cases, {"MaxLen": 8 if quick else 10, "MaxKids": 1}, tag="c20cov", workers=1, timeout=1500))
    stats.append(vlib.tlc_cases("Builder.tla", "BuilderSim.cfg", cases, {"MaxLen": 14}, tag="c20sim", workers=1, timeout=120,
                                simulate="num=%d" % (1500 if quick else 20000), depth=15, seed=seed))
    res = vlib.run_go_seq("TestBuilder", cases, tag="c20go")
    samples = []
    with open(cases) as f:
        for i, line in enumerate(f):
            if i in (5, 5000, 60000):
                samples.append([s["call"] + ":" + s["arg"] + ("=>plan" if s["planReturned"] else "") + ("!e%d" % s["errAt"] if s["errAt"] else "") for s in json.loads(line)])
    rc = seqlib.finish(prop, tier, seed, t0, [res], stats,
                       "every call sequence up to length %d over 24 call classes, a transition cover of the abstract state graph (one history per (state, call) pair), seeded random histories of length 14; distinct = distinct call histories replayed" % (3 if quick else 4),
                       samples, ASSUME, exhaustive=False)
    import shutil
    shutil.rmtree(d, ignore_errors=True)
    return rc
