"""Common driver for the sequential-component checks: verdicts from model/real mismatches."""
import json, os, time, shutil
import vlib
from vlib import log


def finish(prop, tier, seed, t0, results, tlc_stats, rule, samples, assumptions, extra=None, exhaustive=False):
    """results: list of Go replay result dicts. Classifies mismatch kinds against
    known_findings.json (matching on the mismatch kind), prints the lines, writes evidence."""
    findings = vlib.load_findings()
    kinds = {}
    examples = {}
    died = []
    for r in results:
        if r.get("died"):
            died.append(r)
        for k, n in (r.get("kinds") or {}).items():
            kinds[k] = kinds.get(k, 0) + n
        for m in (r.get("mismatches") or []):
            examples.setdefault(m["kind"], m)
    viol, known = [], {}
    for k, n in kinds.items():
        hit = {"clause": k}
        f = None
        for cand in findings:
            if cand.get("status") == "fixed" or cand["property"] != prop:
                continue
            if any(k == c or (c.endswith("*") and k.startswith(c[:-1])) for c in cand["clauses"]):
                f = cand
                break
        if f:
            known.setdefault(f["id"], {"finding": f, "n": 0})["n"] += n
        else:
            viol.append((k, n))
    for fid, kf in known.items():
        print("KNOWN-FINDING: property=%s %s: %s (%d mismatches this run)" % (prop, fid, kf["finding"]["what"], kf["n"]))
    nviol = 0
    for k, n in viol:
        ex = examples.get(k, {})
        p = vlib.save_replay(prop, "%s_seed%d_%s.json" % (prop, seed, "".join(c if c.isalnum() else "_" for c in k)[:60]),
                             {"property": prop, "kind": k, "count": n, "tier": tier, "seed": seed, "example": ex})
        print("VIOLATION property=%s replay=%s" % (prop, p))
        log("  %s (%d cases), e.g. %s" % (k, n, json.dumps(ex)[:600]))
        nviol += 1
    for r in died:
        p = vlib.save_replay(prop, "%s_seed%d_died.json" % (prop, seed), {"property": prop, "kind": "replay process died", "tail": r.get("tail", "")})
        print("VIOLATION property=%s replay=%s" % (prop, p))
        nviol += 1
    cases = sum(r.get("cases", 0) for r in results)
    steps = sum(r.get("steps", 0) for r in results)
    distinct = sum(r.get("distinct", 0) for r in results)
    cov = {
        "states": int(sum(s.get("distinct", 0) for s in tlc_stats)),
        "transitions": int(sum(s.get("generated", 0) for s in tlc_stats)),
        "traces_validated_against_impl": int(cases),
        "samples": samples,
        "evaluations": int(cases),
        "distinct_nontrivial": int(distinct),
        "rule": rule,
        "steps_compared": int(steps),
        "mismatch_kinds": kinds,
        "known_findings_seen": {fid: kf["n"] for fid, kf in known.items()},
        "tlc_runs": [{k: v for k, v in s.items() if k in ("cmd", "wall", "generated", "distinct", "cases")} for s in tlc_stats],
        "exhaustive": exhaustive,
    }
    cov.update(extra or {})
    vlib.write_evidence(prop, tier, seed, "model_checking", cov, time.time() - t0, nviol, assumptions)
    log("[%s] %d cases, %d steps compared, %d mismatch kinds (%d known), %.1fs" % (prop, cases, steps, len(kinds), len(known), time.time() - t0))
    return 1 if nviol else 0
