"""spec/Engine.tla in the checks: (1) exhaustive TLC runs of the model for the configuration families
relevant to a property, with the clauses of Props.tla as invariant; (2) TLC-generated behaviours
(quiescent-choice semantics, -simulate) turned into 'model' mode scenarios for the Go harness."""
import json, os, re, shutil, time
import vlib
from vlib import log

# property -> exhaustive configurations (quick, thorough)
FAMS = {
    "C01": (["order", "gates", "crashfn"], ["order", "gates", "tolerance", "cont", "crash", "crashfn", "crash2fn"]),
    "C02": (["tolerance", "order"], ["tolerance", "order", "big"]),
    "C03": (["tolerance", "crashfn", "crashpost"], ["tolerance", "big", "cont", "crash", "crashfn", "crashpost", "crashchk"]),
    "C04": (["tolerance", "gates", "contq"], ["tolerance", "gates", "cont", "order", "big", "live"]),
    "C05": (["retry", "retryov", "crashretry"], ["retry", "retrychk", "retryov", "retrychkov", "crashretry"]),
    "C06": (["gates", "crashchkfn"], ["gates", "gates2", "crashchk", "crashchkfn"]),
    "C07": (["contq", "gates"], ["cont", "gates", "gates2", "live"]),
    "C08": (["order", "retry", "poll"], ["order", "retry", "poll", "tolerance", "gates"]),
    "C09": (["crash", "crash2", "crashretry"], ["crash", "crash2", "crashchk", "crashchkfn", "crashdeep"]),
    "C10": (["crashfn", "crashchkfn", "crash", "crashretry", "crashprecont"], ["crash", "crashfn", "crash2", "crash2fn", "crashchk", "crashchkfn", "crashprecont", "livecrash", "livecrashchk", "crashdeepfn"]),
    "C11": (["aged1"], ["aged1", "aged", "aged2"]),
    "C12": ([], []),
}
# property -> shape families used for scenario generation
GEN = {
    "C01": ["ShapesOrder", "ShapesGates", "ShapesTol"], "C02": ["ShapesTol", "ShapesOrder"], "C03": ["ShapesTol"],
    "C04": ["ShapesTol", "ShapesGates", "ShapesCont"], "C05": ["ShapesRetry"], "C06": ["ShapesGates"], "C07": ["ShapesCont", "ShapesGates"],
    "C08": ["ShapesOrder", "ShapesRetry"],
}
GEN_OUT = {"ShapesRetry": ("All4", "OkPerm")}

_cache = {}


def run_cfg(name, timeout=None):
    timeout = timeout or (5400 if "deep" in name else 1500)
    if name in _cache:
        return _cache[name]
    d = vlib.scratch("mc_" + name)
    vlib.copy_specs(d, ["Props.tla", "Engine.tla", "MCEngine.tla", "MCEngine_%s.cfg" % name])
    r = vlib.run_tlc(d, "MCEngine.tla", "MCEngine_%s.cfg" % name, workers=min(16, vlib.NCPU), timeout=timeout, xmx="12g")
    out = r.pop("out")
    res = {"cfg": name, "rc": r["rc"], "wall": round(r["wall"], 1), "distinct": r.get("distinct", 0), "generated": r.get("generated", 0)}
    m = re.search(r"The depth of the complete state graph search is (\d+)", out)
    if m:
        res["depth"] = int(m.group(1))
    if r["rc"] != 0:
        bad = re.findall(r"^/\\ bad = (\{.*\})", out, re.M)
        res["error"] = (re.findall(r"Error: (.*)", out) or ["?"])[0]
        res["bad"] = bad[-1] if bad else ""
    shutil.rmtree(d, ignore_errors=True)
    _cache[name] = res
    return res


def check(prop, tier, seed):
    names = FAMS.get(prop, ([], []))[0 if tier == "quick" else 1]
    runs = [run_cfg(n) for n in names]
    for r in runs:
        if r["rc"] != 0:
            # a counterexample on the model alone is never a verdict about the code (DESIGN section 1):
            # it means the specification and its clauses disagree, which must be repaired in /verif
            raise vlib.Infra("Engine.tla configuration %s: TLC reports %s %s" % (r["cfg"], r.get("error"), r.get("bad")))
    return {"configs": runs, "distinct": sum(r["distinct"] for r in runs), "generated": sum(r["generated"] for r in runs),
            "result": "no clause of Props.tla is violated in any reachable state of the configurations listed"}


def harness_shape(sh):
    return {"pg": {g: n for g, n in sh["pg"].items() if n > 0},
            "blocks": [{"g": {g: n for g, n in b["g"].items() if n > 0}, "seqs": b["seqs"], "conc": b["conc"], "tol": b["tol"]} for b in sh["blocks"]],
            "retries": sh["retries"], "cretries": sh["cretries"]}


def gen_scenarios(prop, n, seed):
    """n behaviours of the model per shape family of the property, as harness scenarios (mode 'model')."""
    res = []
    fams = GEN.get(prop, [])
    if not fams or n <= 0:
        return res
    per = max(1, n // len(fams))
    for fi, fam in enumerate(fams):
        d = vlib.scratch("gen_" + fam)
        vlib.copy_specs(d, ["Props.tla", "Engine.tla", "MCEngine.tla"])
        so, co = GEN_OUT.get(fam, ("OkPerm", "OkPerm"))
        cfg = open(os.path.join(vlib.SPEC, "MCEngineGen.cfg")).read()
        cfg = re.sub(r"ShapeSet <- \w+", "ShapeSet <- " + fam, cfg)
        cfg = re.sub(r"SeqOutcomes <- \w+", "SeqOutcomes <- " + so, cfg)
        cfg = re.sub(r"ChkOutcomes <- \w+", "ChkOutcomes <- " + co, cfg)
        open(os.path.join(d, "gen.cfg"), "w").write(cfg)
        r = vlib.run_tlc(d, "MCEngine.tla", "gen.cfg", workers=1, timeout=300, simulate="num=%d" % per, depth=1500, seed=seed * 31 + fi)
        k = 0
        for line in r["out"].splitlines():
            if not line.startswith('"SCN '):
                continue
            s = json.loads(json.loads(line)[4:])
            outs = {}
            for e in s["evs"]:
                e["pl"] = 0
                if e["e"] == "E":
                    outs.setdefault(e["o"], []).append(e["out"])
            res.append({"kind": "engine", "shape": harness_shape(s["shape"]), "mode": "model", "evs": s["evs"], "out": outs, "tag": "model-" + fam,
                        "contdelay": 100, "latmax": 50, "model_final": s["final"], "model_reason": s["reason"]})
            k += 1
        if k == 0:
            raise vlib.Infra("scenario generation for %s produced nothing:\n%s" % (fam, r["out"][-1500:]))
        shutil.rmtree(d, ignore_errors=True)
    return res


# ---------------------------------------------------------------------------------------
# code -> model: is a recorded trace a behaviour of Engine.tla?  (spec/EngineConf.tla)

def _conf_one(args):
    key, trace, keep = args
    d = vlib.scratch("conf")
    vlib.copy_specs(d, ["Props.tla", "Engine.tla", "EngineConf.tla", "EngineConf.cfg"])
    if len(trace) > 2 and trace[1]["ev"] == "Crash":
        # NewProc is the harness's own marker, written when coercion.New has returned; recovery starts inside New, so
        # its first events may be recorded before the marker: the marker belongs right behind the Crash line
        np = [e for e in trace[2:] if e["ev"] == "NewProc"][:1]
        trace = trace[:2] + np + [e for e in trace[2:] if not (np and e is np[0])]
    with open(os.path.join(d, "trace.ndjson"), "w") as f:
        for e in trace:
            e2 = {x: y for x, y in e.items() if x != "_c"}
            if e2["ev"] == "Crash":
                # the model keeps attempts as a sequence of outcome letters: the digest string, letter by letter
                e2["snap"] = [dict(row, atts=([] if row["dig"] == "-" else list(row["dig"]))) for row in e2["snap"]]
            f.write(json.dumps(e2, separators=(",", ":")) + "\n")
    r = vlib.run_tlc(d, "EngineConf.tla", "EngineConf.cfg", workers=1, timeout=180, deque=True, xmx="1g", light=True)
    cj = None
    p = os.path.join(d, "conf.json")
    if os.path.exists(p):
        cj = json.load(open(p))
    res = {"key": list(key), "lines": len(trace), "reached": cj["reached"] if cj else -1, "accepted": bool(cj) and r["rc"] == 0 and cj["reached"] == len(trace),
           "states": r.get("distinct", 0), "wall": round(r["wall"], 1), "rc": r["rc"]}
    if not res["accepted"] and cj:
        i = cj["reached"]
        res["next_line"] = {k: v for k, v in trace[i].items() if k not in ("snap", "objs", "blocks", "_c", "mshape")} if i < len(trace) else {}
    if not res["accepted"] and not cj:
        res["tail"] = r["out"][-600:]
    if not keep:
        shutil.rmtree(d, ignore_errors=True)
    return res


def conformable(trace):
    cfg = trace[0]
    if cfg.get("mode") == "api" or "mshape" not in cfg:
        return False
    if cfg.get("mode") in ("crash", "resume") and (len(trace) < 2 or trace[1]["ev"] != "Crash" or not trace[1].get("recovery", True)):
        return False
    for i, e in enumerate(trace):
        if e["ev"] == "Crash" and i == 1:
            continue
        if e["ev"] in ("Crash", "Hang", "ProcDied", "HoldTimeout", "WFail", "Exit"):
            return False
    return True


def conformance(traces, n, seed, keep=False):
    """Check n of the recorded live traces against Engine.tla (in parallel processes)."""
    import random, concurrent.futures
    cand = [(k, t) for k, t in traces.items() if conformable(t)]
    random.Random(seed).shuffle(cand)
    cand = cand[:n]
    if not cand:
        return {"checked": 0, "accepted": 0, "rejected": []}
    with concurrent.futures.ThreadPoolExecutor(max_workers=min(12, vlib.NCPU)) as ex:
        rs = list(ex.map(_conf_one, [(k, t, keep) for k, t in cand]))
    # a rejection is re-checked once on its own (TLC start-up under load has been seen to fail sporadically)
    for i, r in enumerate(rs):
        if not r["accepted"]:
            rs[i] = _conf_one((cand[i][0], cand[i][1], keep))
            rs[i]["rechecked"] = True
    rej = [r for r in rs if not r["accepted"]]
    return {"checked": len(rs), "accepted": len(rs) - len(rej), "rejected": rej[:5], "states": sum(r["states"] for r in rs),
            "lines": sum(r["lines"] for r in rs), "max_wall": max(r["wall"] for r in rs)}
