"""spec/Engine.tla in the checks: (1) exhaustive TLC runs of the model for the configuration families
relevant to a property, with the clauses of Props.tla as invariant; (2) TLC-generated behaviours
(quiescent-choice semantics, -simulate) turned into 'model' mode scenarios for the Go harness."""
import json, os, re, shutil, time
import vlib
from vlib import log

# property -> exhaustive configurations (quick, thorough)
FAMS = {
    "C01": (["order", "gates"], ["order", "gates", "tolerance", "cont"]),
    "C02": (["tolerance", "order"], ["tolerance", "order", "big"]),
    "C03": (["tolerance"], ["tolerance", "big", "cont"]),
    "C04": (["tolerance", "gates", "contq"], ["tolerance", "gates", "cont", "order", "big"]),
    "C05": (["retry"], ["retry", "retrychk"]),
    "C06": (["gates"], ["gates", "gates2"]),
    "C07": (["contq", "gates"], ["cont", "gates", "gates2"]),
    "C08": (["order", "retry"], ["order", "retry", "tolerance", "gates"]),
    "C09": (["crash", "crash2"], ["crash", "crash2", "crashchk"]),
    "C10": (["crash", "crashchk"], ["crash", "crash2", "crashchk"]),
    "C11": ([], []),
    "C12": ([], []),
}
# property -> shape families used for scenario generation
GEN = {
    "C01": ["ShapesOrder", "ShapesGates", "ShapesTol"], "C02": ["ShapesTol", "ShapesOrder"], "C03": ["ShapesTol"],
    "C04": ["ShapesTol", "ShapesGates", "ShapesCont"], "C05": ["ShapesRetry"], "C06": ["ShapesGates"], "C07": ["ShapesCont", "ShapesGates"],
    "C08": ["ShapesOrder", "ShapesRetry"],
}
GEN_OUT = {"ShapesRetry": ("All4", "OkPerm")}

_cache = {}


def run_cfg(name, timeout=1500):
    if name in _cache:
        return _cache[name]
    d = vlib.scratch("mc_" + name)
    vlib.copy_specs(d, ["Props.tla", "Engine.tla", "MCEngine.tla", "MCEngine_%s.cfg" % name])
    r = vlib.run_tlc(d, "MCEngine.tla", "MCEngine_%s.cfg" % name, workers=min(16, vlib.NCPU), timeout=timeout, xmx="12g")
    out = r.pop("out")
    res = {"cfg": name, "rc": r["rc"], "wall": round(r["wall"], 1), "distinct": r.get("distinct", 0), "generated": r.get("generated", 0)}
    m = re.search(r"The depth of the complete state graph search is (\d+)", out)
    if m:
        res["depth"] = int(m.group(1))
    if r["rc"] != 0:
        bad = re.findall(r"^/\\ bad = (\{.*\})", out, re.M)
        res["error"] = (re.findall(r"Error: (.*)", out) or ["?"])[0]
        res["bad"] = bad[-1] if bad else ""
    shutil.rmtree(d, ignore_errors=True)
    _cache[name] = res
    return res


def check(prop, tier, seed):
    names = FAMS.get(prop, ([], []))[0 if tier == "quick" else 1]
    runs = [run_cfg(n) for n in names]
    for r in runs:
        if r["rc"] != 0:
            # a counterexample on the model alone is never a verdict about the code (DESIGN section 1):
            # it means the specification and its clauses disagree, which must be repaired in /verif
            raise vlib.Infra("Engine.tla configuration %s: TLC reports %s %s" % (r["cfg"], r.get("error"), r.get("bad")))
    return {"configs": runs, "distinct": sum(r["distinct"] for r in runs), "generated": sum(r["generated"] for r in runs),
            "result": "no clause of Props.tla is violated in any reachable state of the configurations listed"}


def harness_shape(sh):
    return {"pg": {g: n for g, n in sh["pg"].items() if n > 0},
            "blocks": [{"g": {g: n for g, n in b["g"].items() if n > 0}, "seqs": b["seqs"], "conc": b["conc"], "tol": b["tol"]} for b in sh["blocks"]],
            "retries": sh["retries"], "cretries": sh["cretries"]}


def gen_scenarios(prop, n, seed):
    """n behaviours of the model per shape family of the property, as harness scenarios (mode 'model')."""
    res = []
    fams = GEN.get(prop, [])
    if not fams or n <= 0:
        return res
    per = max(1, n // len(fams))
    for fi, fam in enumerate(fams):
        d = vlib.scratch("gen_" + fam)
        vlib.copy_specs(d, ["Props.tla", "Engine.tla", "MCEngine.tla"])
        so, co = GEN_OUT.get(fam, ("OkPerm", "OkPerm"))
        cfg = open(os.path.join(vlib.SPEC, "MCEngineGen.cfg")).read()
        cfg = re.sub(r"ShapeSet <- \w+", "ShapeSet <- " + fam, cfg)
        cfg = re.sub(r"SeqOutcomes <- \w+", "SeqOutcomes <- " + so, cfg)
        cfg = re.sub(r"ChkOutcomes <- \w+", "ChkOutcomes <- " + co, cfg)
        open(os.path.join(d, "gen.cfg"), "w").write(cfg)
        r = vlib.run_tlc(d, "MCEngine.tla", "gen.cfg", workers=1, timeout=300, simulate="num=%d" % per, depth=1500, seed=seed * 31 + fi)
        k = 0
        for line in r["out"].splitlines():
            if not line.startswith('"SCN '):
                continue
            s = json.loads(json.loads(line)[4:])
            outs = {}
            for e in s["evs"]:
                e["pl"] = 0
                if e["e"] == "E":
                    outs.setdefault(e["o"], []).append(e["out"])
            res.append({"kind": "engine", "shape": harness_shape(s["shape"]), "mode": "model", "evs": s["evs"], "out": outs, "tag": "model-" + fam,
                        "contdelay": 100, "latmax": 50, "model_final": s["final"], "model_reason": s["reason"]})
            k += 1
        if k == 0:
            raise vlib.Infra("scenario generation for %s produced nothing:\n%s" % (fam, r["out"][-1500:]))
        shutil.rmtree(d, ignore_errors=True)
    return res
