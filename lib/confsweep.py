#!/usr/bin/env python3
"""confsweep.py [seed] [n]: code -> model conformance sweep over crash-recovery traces. Runs the crash families
(crash-point rebuilds incl. second crashes and flipped check answers, SIGKILL, write failure), and checks n of the
recorded traces of RESUMING processes against spec/Engine.tla (EngineConf.tla, CrashInit). Prints the rejected
traces compactly: a rejection is a drift between the recovery model and the recovery code, to be resolved by reading
the code at that step. Not a registered check; the same conformance runs on a sample inside every engine check."""
import sys, os, json, random
sys.path.insert(0, os.path.dirname(os.path.abspath(__file__)))
import vlib, families as F, engine_model

seed = int(sys.argv[1]) if len(sys.argv) > 1 else 1
n = int(sys.argv[2]) if len(sys.argv) > 2 else 100
vlib.build_harness()
r = random.Random(seed)
scs = (F.fam_crash(r, 10, crashmax=8, double=0, fn=True) + F.fam_crash(r, 4, crashmax=6, double=0, fn=False, flip=True) + F.fam_crash_tol(r, 4)
       + F.fam_crash(r, 4, crashmax=5, double=3, fn=True) + F.fam_kill(r, 4) + F.fam_failwrite(r, 6) + F.fam_crash_conc(r, 3)
       + F.fam_crash_deferred(r, 4) + F.fam_crash_order(r, 4, crashmax=8) + F.fam_crash_slow(r, 2) + F.fam_resume(r, 12))
for i, s in enumerate(scs):
    s["id"] = i
    s["seed"] = seed * 1000 + i
events, info = vlib.run_jobs(scs, tag="cs")
traces = vlib.split_traces(events)
crash = {k: t for k, t in traces.items() if t[0].get("mode") in ("crash", "resume") and engine_model.conformable(t)}
print(len(traces), "traces,", len(crash), "conformable traces of resuming processes")
res = engine_model.conformance(crash, n, seed)
print({k: v for k, v in res.items() if k != "rejected"})


def compact(e):
    if e["ev"] == "Config":
        return "Config crashk=%s crashj=%s shape=%s" % (e.get("crashk"), e.get("crashj"), json.dumps(e.get("mshape"))[:300])
    if e["ev"] in ("Crash", "WaitRet"):
        return "%s reason=%s " % (e["ev"], e["reason"]) + " ".join("%s=%s/%s" % (x["obj"], x["st"][:2], x["dig"]) for x in e["snap"])
    if e["ev"] == "W":
        return "W %s %s natt=%s" % (e["obj"], e["st"], e["natt"])
    if e["ev"] in ("PStart", "PEnd"):
        return "%s %s n=%s %s" % (e["ev"], e["obj"], e["n"], e.get("out", ""))
    return e["ev"]


for rj in res["rejected"][:3]:
    t = crash[tuple(rj["key"])]
    print("---- rejected", rj["key"], "matched", rj["reached"], "of", rj["lines"], "lines")
    for i, e in enumerate(t):
        print(i + 1, compact(e)[:300])
sys.exit(0 if not res["rejected"] else 3)
