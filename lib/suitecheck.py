#!/usr/bin/env python3
"""suitecheck.py <seed id>: existing test suite with the seeded change applied (scratch worktree); result recorded in meta.json."""
import sys, os, json, subprocess
V = os.path.dirname(os.path.dirname(os.path.abspath(__file__)))
sid = sys.argv[1]
d = os.path.join(V, "seeded", sid)
meta = json.load(open(os.path.join(d, "meta.json")))
wt = "/tmp/ev/suite_" + sid
env = dict(os.environ, GOFLAGS="-mod=mod", GOPROXY="off"); env.pop("GOTOOLCHAIN", None)
def sh(c, cwd=None, t=3000):
    p = subprocess.run(c, shell=True, cwd=cwd, env=env, stdout=subprocess.PIPE, stderr=subprocess.STDOUT, text=True, timeout=t); return p.returncode, p.stdout
sh("git -C /repo worktree remove --force " + wt)
rc, out = sh("git -C /repo worktree add --detach %s HEAD" % wt); assert rc == 0, out
try:
    rc, out = sh("git apply --whitespace=nowarn %s || git apply -3 --whitespace=nowarn %s" % (os.path.join(d, "patch.diff"), os.path.join(d, "patch.diff")), cwd=wt)
    if rc != 0:
        meta["suite_passes_with_change"] = None; meta["suite_note"] = "patch does not apply to the current tree"
    else:
        rc, out = sh("go test -vet=off -count=1 -timeout 25m ./... 2>&1 | grep -v 'no test files'", cwd=wt)
        ok = "FAIL" not in out and "ok" in out
        meta["suite_passes_with_change"] = ok
        meta["suite_tail"] = out[-700:]
finally:
    sh("git -C /repo worktree remove --force " + wt)
json.dump(meta, open(os.path.join(d, "meta.json"), "w"), indent=1)
print(sid, meta.get("suite_passes_with_change"))
