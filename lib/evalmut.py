#!/usr/bin/env python3
"""evalmut.py <dir with patch.diff + demo + README.md> <seed id, e.g. C12_1> [--props C12,C04] [--suite]
Confirms a seeded change in a scratch worktree of /repo (applies, compiles, demo fails with it and
passes without it, optionally the whole existing suite passes with it), runs the given property checks
against it (VERIF_REPO), and stores everything under /verif/seeded/<id>/."""
import sys, os, subprocess, json, shutil, re, glob, time
V = os.path.dirname(os.path.dirname(os.path.abspath(__file__)))
src, sid = os.path.abspath(sys.argv[1]), sys.argv[2]
props = [sid.split("_")[0]]
suite = "--suite" in sys.argv
for i, a in enumerate(sys.argv):
    if a == "--props":
        props = sys.argv[i + 1].split(",")
env = dict(os.environ, GOFLAGS="-mod=mod", GOPROXY="off")
env.pop("GOTOOLCHAIN", None)
wt = "/tmp/ev/" + sid
def sh(cmd, cwd=None, timeout=1800):
    p = subprocess.run(cmd, shell=True, cwd=cwd, env=env, stdout=subprocess.PIPE, stderr=subprocess.STDOUT, text=True, timeout=timeout)
    return p.returncode, p.stdout
os.makedirs("/tmp/ev", exist_ok=True)
sh("git -C /repo worktree remove --force %s" % wt)
rc, out = sh("git -C /repo worktree add --detach %s HEAD" % wt)
assert rc == 0, out
meta = {"id": sid, "breaks": props[0], "source": "independent sub-agent given only the property text and a scratch worktree", "ran": []}
readme = open(os.path.join(src, "README.md")).read() if os.path.exists(os.path.join(src, "README.md")) else ""
meta["needs"] = readme[:1500]
demos = [f for f in glob.glob(os.path.join(src, "*")) if f.endswith(".go")]
# where does the demo go? look for a path hint in the README, else repo root
def demo_dest(f):
    # the README's "go test ... <pkg>" command line tells where the demo lives
    for m in re.finditer(r"go test[^\n]*?\s(\./[\w./-]*|\.)\s*(?:$|`|\n)", readme, re.M):
        pkg = m.group(1).rstrip("/")
        if pkg in (".", "./"):
            return wt
        if pkg.endswith("..."):
            continue
        d = os.path.join(wt, pkg[2:])
        os.makedirs(d, exist_ok=True)
        return d
    return wt
dests = []
try:
    # 1. demo on the clean tree
    for f in demos:
        d = demo_dest(f)
        shutil.copy(f, d)
        dests.append((os.path.join(d, os.path.basename(f)), d))
    pkgs = sorted({"./" + os.path.relpath(d, wt) for _, d in dests})
    tags = "-tags verif" if "verif" in readme and "-tags" in readme else ""
    rc0, out0 = sh("go test %s -count=1 -timeout 300s %s" % (tags, " ".join(pkgs)), cwd=wt)
    meta["ran"].append({"cmd": "demo on clean worktree", "rc": rc0, "tail": out0[-600:]})
    # 2. apply
    rc, out = sh("git apply --whitespace=nowarn %s" % os.path.join(src, "patch.diff"), cwd=wt)
    if rc != 0:
        rc, out = sh("git apply -3 --whitespace=nowarn %s" % os.path.join(src, "patch.diff"), cwd=wt)
    meta["applies"] = rc == 0
    meta["ran"].append({"cmd": "git apply patch.diff", "rc": rc, "tail": out[-600:]})
    if rc == 0:
        rcb, outb = sh("go build ./... && go vet -tags verif ./workflow/storage/cosmosdb/ >/dev/null 2>&1; go build -tags verif ./...", cwd=wt)
        meta["compiles"] = rcb == 0
        rc1, out1 = sh("go test %s -count=1 -timeout 300s %s" % (tags, " ".join(pkgs)), cwd=wt)
        meta["ran"].append({"cmd": "demo with the change", "rc": rc1, "tail": out1[-900:]})
        meta["demo_fails_with_change"] = rc1 != 0
        meta["demo_passes_without"] = rc0 == 0
        if suite:
            for f, _ in dests:
                os.rename(f, f + ".off")
            rcs, outs = sh("go test -vet=off -count=1 -timeout 25m ./... 2>&1 | grep -v 'no test files' | tail -20", cwd=wt, timeout=2400)
            meta["suite_passes_with_change"] = ("FAIL" not in outs) and rcs == 0
            meta["ran"].append({"cmd": "existing suite with the change", "rc": rcs, "tail": outs[-800:]})
            for f, _ in dests:
                os.rename(f + ".off", f)
        for f, _ in dests:
            os.remove(f)
        # 3. my checks against it
        meta["checks"] = {}
        for pr in props:
            outroot = "/tmp/ev/%s.out" % sid
            e2 = dict(env, VERIF_REPO=wt, VERIF_OUTROOT=outroot)
            for seed in ("1", "2"):
                e2["VERIF_SEED"] = seed
                t0 = time.time()
                p = subprocess.run([os.path.join(V, "check"), pr, "--tier", "quick"], cwd=V, env=e2, stdout=subprocess.PIPE, stderr=subprocess.STDOUT, text=True)
                lines = [l for l in p.stdout.splitlines() if l.startswith(("VIOLATION", "KNOWN-FINDING", "INFRA"))]
                meta["checks"].setdefault(pr, []).append({"seed": int(seed), "exit": p.returncode, "wall_s": round(time.time() - t0, 1), "lines": lines[:6],
                                                          "tail": p.stdout[-500:] if p.returncode not in (0, 1) else ""})
                if p.returncode == 1:
                    break
            shutil.rmtree(outroot, ignore_errors=True)
        meta["detected_by"] = [pr for pr, rs in meta["checks"].items() if any(r["exit"] == 1 for r in rs)]
finally:
    sh("git -C /repo worktree remove --force %s" % wt)
    import hashlib
    shutil.rmtree(os.path.join(V, "work", "alt", hashlib.sha1(wt.encode()).hexdigest()[:10]), ignore_errors=True)
dst = os.path.join(V, "seeded", sid)
os.makedirs(dst, exist_ok=True)
for f in glob.glob(os.path.join(src, "*")):
    if os.path.isfile(f) and not f.endswith(".log") and os.path.abspath(f) != os.path.abspath(os.path.join(dst, os.path.basename(f))):
        shutil.copy(f, dst)
try:
    old = json.load(open(os.path.join(dst, "meta.json")))
    for k in ("suite_passes_with_change", "suite_run"):
        if k in old and k not in meta:
            meta[k] = old[k]
    # checks of other properties run earlier stay on record
    for pr, rs in old.get("checks", {}).items():
        if any(r["exit"] in (0, 1) for r in rs):      # inconclusive runs (exit 2) of an earlier evaluation are not kept
            meta.setdefault("checks", {}).setdefault(pr, rs)
    meta["detected_by"] = [pr for pr, rs in meta.get("checks", {}).items() if any(r["exit"] == 1 for r in rs)]
except (OSError, ValueError):
    pass
json.dump(meta, open(os.path.join(dst, "meta.json"), "w"), indent=1)
print(sid, "applies", meta.get("applies"), "compiles", meta.get("compiles"), "demo fails/passes", meta.get("demo_fails_with_change"), meta.get("demo_passes_without"),
      "suite", meta.get("suite_passes_with_change"), "detected_by", meta.get("detected_by"), {k: [(r["seed"], r["exit"]) for r in v] for k, v in meta.get("checks", {}).items()})
