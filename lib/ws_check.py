"""Workstream histories (spec/Exec.tla): exhaustive TLC runs of the concurrent registry model, random API histories
over two plans with racing / background callers and restarts executed on the real Workstream (harness/ws_test.go),
and validation of every recorded history against Exec.tla by TLC (spec/ExecTrace.tla). A history the model cannot
explain is a verdict of C12 (a real reply differs from every reply the specification allows)."""
import json, os, random, shutil, collections
import vlib
from vlib import log

TINY = {"pg": {}, "blocks": [{"g": {}, "seqs": [1], "conc": 1, "tol": 0}], "retries": 0, "cretries": 0}
KEEP = ("Config", "XCall", "XRet", "PStart", "PEnd", "XRestart", "W", "XFault", "XFaultClear")
STC = {"NotStarted": "NS", "Running": "RU", "Completed": "CO", "Failed": "FA"}


def fam_ws(rnd, n):
    res = []
    ops1 = ["start", "start", "race2", "race3", "racef3", "racef4", "wait", "wait", "waitto", "plan", "status", "bgwait"]
    for i in range(n):
        h = ["submit:1"] if rnd.random() < 0.85 else []
        ln = rnd.randint(3, 9)
        stale = rnd.random() < 0.2
        restarts = 0
        for j in range(ln):
            r = rnd.random()
            if r < 0.08:
                h.append("submit:%d" % rnd.choice([1, 2, 2]))
            elif r < 0.22 and restarts < 2 and j > 0:
                restarts += 1
                h.append("%s:%d" % (rnd.choice(["restart", "restart", "restart", "restart-norec", "restart-aged", "restart-aged", "restart-norec-aged"]), rnd.choice([0, 8, 15, 25, 35, 45, 55, 65, 75, 85, 95, 100, 100, 100])))
            elif stale and r < 0.30:
                h.append("sleep:280")
            else:
                h.append("%s:%d" % (rnd.choice(ops1), rnd.choice([1, 1, 1, 2])))
        sc = {"kind": "ws", "shape": TINY, "mode": "free", "api": h, "tag": "ws-stale" if stale else "ws",
              "out": {"0#b1.s1.a1": [rnd.choice(["ok", "ok", "perm"])], "1#b1.s1.a1": [rnd.choice(["ok", "perm"])]},
              "lat": {"b1.s1.a1": [rnd.choice([0, 100, 800, 3000])]}}
        if stale:
            sc["maxsubmitms"] = 250
        if rnd.random() < 0.5:
            sc["lagidx"] = True
        res.append(sc)
    # racing Starts behind a Start whose storage read fails
    for i in range(10):
        res.append({"kind": "ws", "shape": TINY, "mode": "free", "api": ["submit:1", "racef%d:1" % rnd.choice([3, 3, 4, 5]), "wait:1", "start:1"], "tag": "ws-racef",
                    "out": {}, "lat": {"b1.s1.a1": [rnd.choice([0, 500])]}})
    # every kind of restart at crash points spread over a started plan's write log, whatever the sample
    for kind in ("restart", "restart-norec", "restart-aged", "restart-norec-aged"):
        for k in (15, 35, 55, 75, 100):
            tail = rnd.choice([["wait:1", "status:1", "start:1"], ["start:1", "plan:1", "wait:1"], ["bgwait:1", "race2:1", "waitto:1"]])
            res.append({"kind": "ws", "shape": TINY, "mode": "free", "api": ["submit:1", "submit:2", "start:1", "%s:%d" % (kind, k)] + tail + ["start:2", "wait:2"],
                        "tag": "ws-directed", "out": {"0#b1.s1.a1": [rnd.choice(["ok", "perm"])]}, "lat": {"b1.s1.a1": [rnd.choice([0, 300])]}, "lagidx": k == 100})
    return res


def translate(events):
    """events of ws scenarios -> {scn: [trace lines]} in the vocabulary of ExecTrace.tla"""
    by = collections.OrderedDict()
    for e in events:
        by.setdefault(e.get("scn", -1), []).append(e)
    traces, extra = collections.OrderedDict(), {}
    for scn, evs in by.items():
        evs.sort(key=lambda e: (e["_c"], e["seq"]))
        out, flags = [], []
        for e in evs:
            k = e["ev"]
            if k in ("Panic", "Hang"):
                flags.append({"ev": k, "msg": e.get("msg", ""), "op": e.get("op", "")})
            if k not in KEEP:
                continue
            if k == "Config":
                out.append({"ev": "Config", "recovery": bool(e["recovery"]), "scn": scn})
            elif k == "XCall":
                out.append({"ev": "XCall", "c": e["c"], "op": e["op"], "p": e["p"], "oldb": bool(e["oldb"])})
            elif k == "XRet":
                res = e["res"]
                if e["op"] == "waitto" and res not in ("NS", "RU", "CO", "FA", "cancel"):
                    res = "any"     # a Wait whose context expired may fail in the read as well
                out.append({"ev": "XRet", "c": e["c"], "op": e["op"], "p": e["p"], "res": res, "olda": bool(e["olda"])})
            elif k == "PStart":
                out.append({"ev": "PStart", "p": e["pl"] + 1})
            elif k == "PEnd":
                out.append({"ev": "PEnd", "p": e["pl"] + 1, "out": "ok" if e["out"] == "ok" else "fail"})
            elif k == "W":
                ln = {"ev": "W", "p": e["pl"] + 1, "k": e["k"], "st": STC.get(e["st"], e["st"])}
                if out and out[-1] == ln:
                    continue     # the engine repeats many writes
                out.append(ln)
            elif k in ("XFault", "XFaultClear"):
                out.append({"ev": k, "p": e["p"]})
            elif k == "XRestart":
                out.append({"ev": "XRestart", "st": e["st"], "ad": e["ad"], "idx": e["idx"], "aged": [bool(x) for x in e["aged"]], "recovery": bool(e["recovery"])})
        if out and out[0]["ev"] == "Config":
            traces[scn] = out
            extra[scn] = flags
    return traces, extra


def validate(traces, tag="exec", parts=4):
    """Validate the traces against Exec.tla (in `parts` TLC processes side by side)."""
    import concurrent.futures
    items = list(traces.items())
    if len(items) < 8 or parts <= 1:
        return _validate(traces, items, tag)
    chunks = [items[i::parts] for i in range(parts)]
    with concurrent.futures.ThreadPoolExecutor(max_workers=parts) as ex:
        rs = list(ex.map(lambda c: _validate(traces, c, tag), chunks))
    rejected, stats = [], {"lines": 0, "states": 0, "wall": 0.0, "runs": 0}
    for rj, st in rs:
        rejected += rj
        for k in ("lines", "states", "runs"):
            stats[k] += st[k]
        stats["wall"] = max(stats["wall"], st["wall"])
    return rejected, stats


def _validate(traces, todo, tag="exec"):
    """Returns (rejected: [{scn, line_index, line}], stats)."""
    rejected, stats = [], {"lines": 0, "states": 0, "wall": 0.0, "runs": 0}
    todo = list(todo)
    while todo:
        d = vlib.scratch(tag)
        vlib.copy_specs(d, ["Exec.tla", "ExecTrace.tla", "ExecTrace.cfg"])
        index = []
        with open(os.path.join(d, "trace.ndjson"), "w") as f:
            for scn, lines in todo:
                for i, ln in enumerate(lines):
                    f.write(json.dumps(ln, separators=(",", ":")) + "\n")
                    index.append((scn, i))
        r = vlib.run_tlc(d, "ExecTrace.tla", "ExecTrace.cfg", workers=1, timeout=1800)
        stats["runs"] += 1
        stats["wall"] += r["wall"]
        stats["states"] += r.get("distinct", 0)
        jf = os.path.join(d, "exec.json")
        if not os.path.exists(jf):
            raise vlib.Infra("TLC trace validation (ExecTrace) failed rc=%s in %s:\n%s" % (r["rc"], d, r["out"][-2500:]))
        v = json.load(open(jf))
        shutil.rmtree(d, ignore_errors=True)
        if v["reached"] >= len(index):
            stats["lines"] += len(index)
            break
        scn, i = index[v["reached"]]       # first line no behaviour of the model explains
        rejected.append({"scn": scn, "line_index": i, "line": traces[scn][i], "matched_prefix": traces[scn][max(0, i - 8):i]})
        pos = [j for j, (s, _) in enumerate(todo) if s == scn][0]
        stats["lines"] += sum(len(x[1]) for x in todo[:pos + 1])
        todo = todo[pos + 1:]
    return rejected, stats


MODEL_CFGS = {"quick": [("MCExec_idx.cfg", 8), ("MCExec_race3.cfg", 8)],
              "thorough": [("MCExec_idx.cfg", 12), ("MCExec_two.cfg", 12), ("MCExec_race4.cfg", 14), ("MCExec_race.cfg", 14), ("MCExec_live.cfg", 4)]}


def model(tier):
    """Exhaustive TLC runs of Exec.tla. A violation here is a disagreement inside /verif (exit 2), never a verdict."""
    out = {}
    for cfg, workers in MODEL_CFGS[tier]:
        d = vlib.scratch("mcexec")
        vlib.copy_specs(d, ["Exec.tla", "MCExec.tla", cfg])
        r = vlib.run_tlc(d, "MCExec.tla", cfg, workers=workers, timeout=2400, xmx="12g")
        shutil.rmtree(d, ignore_errors=True)
        if r["rc"] != 0 or "No error has been found" not in r["out"]:
            raise vlib.Infra("Exec.tla configuration %s does not pass (rc %s):\n%s" % (cfg, r["rc"], r["out"][-2500:]))
        out[cfg] = {"distinct": r.get("distinct", 0), "generated": r.get("generated", 0), "wall_s": round(r["wall"], 1)}
    return out


def run(prop, tier, seed, scenarios=None):
    """Returns (violations: list of replay payloads, coverage dict)."""
    rnd = random.Random(seed * 104729 + 12)
    if scenarios is None:
        scenarios = fam_ws(rnd, 130 if tier == "quick" else 1200)
    for i, s in enumerate(scenarios):
        s.setdefault("id", 50000 + i)
        s.setdefault("seed", seed * 1000 + i)
    events, info = vlib.run_jobs(scenarios, tag=prop + "ws")
    if info["errors"]:
        raise vlib.Infra("harness errors (ws): " + "; ".join(info["errors"][:5]))
    traces, flags = translate(events)
    byid = {s["id"]: s for s in scenarios}
    viol = []
    for dd in info["died"]:
        viol.append({"kind": "process died", "scenario": byid.get(dd["scn"]), "tail": dd["tail"][-800:]})
    # a hang counts only if it reproduces in a fresh process
    if info["hung"]:
        again = [byid[i] for i in info["hung"] if i in byid]
        _, info2 = vlib.run_jobs(again, tag=prop + "wsrehang")
        shutil.rmtree(info2["dir"], ignore_errors=True)
        for i in info["hung"]:
            if i in info2["hung"]:
                viol.append({"kind": "hang", "scenario": byid.get(i), "trace": traces.get(i)})
            else:
                log("[%s] ws scenario %s hung once and not again: not counted" % (prop, i))
            traces.pop(i, None)
    for scn, fl in flags.items():
        for f in fl:
            if f["ev"] == "Panic":
                viol.append({"kind": "panic in %s: %s" % (f["op"], f["msg"]), "scenario": byid.get(scn), "trace": traces.get(scn)})
                traces.pop(scn, None)
                break
    for dd in info["died"]:
        traces.pop(dd["scn"], None)
    rejected, stats = validate(traces, tag=prop + "exec")
    for r in rejected:
        viol.append({"kind": "history is not a behaviour of Exec.tla", "scenario": byid.get(r["scn"]), "first_unexplained_line": r["line"],
                     "line_index": r["line_index"], "matched_prefix": r["matched_prefix"], "trace": traces[r["scn"]]})
    shutil.rmtree(info["dir"], ignore_errors=True)
    nrestart = sum(1 for t in traces.values() for ln in t if ln["ev"] == "XRestart")
    cov = {"histories": len(scenarios), "histories_validated_against_Exec_tla": len(traces), "lines": stats["lines"], "restarts": nrestart,
           "tlc_runs": stats["runs"], "tlc_states": stats["states"], "tlc_wall_s": round(stats["wall"], 1), "rejected": len(rejected),
           "calls": sum(1 for t in traces.values() for ln in t if ln["ev"] == "XCall")}
    return viol, cov
