"""C17: secure-tagged values never leak through clones or HTML reports; the registry refuses
secret-looking field names without a tag. spec/Secure.tla enumerates type shapes (with the
verdict mustScrub / mustKeep for every leaf path) and registry shapes (with Refuses); harness
TestSecure builds every type with reflect, plants canaries, runs the real clone.*, reports.Render
and registry.Register and compares."""
import os, time, json, shutil
import vlib, seqlib

ASSUME = ["spec/Secure.tla is the reference: a leaf must vanish iff a struct field on its path is tagged coerce:\"secure\" and no array is on the path (weaker reading of 'arrays excepted'); a leaf governed by no tag must stay",
          "a response can only be in a clone made WithKeepState; WithKeepState without WithKeepSecrets is taken as a 'default clone operation' with respect to secrets (reported under its own mismatch kinds)",
          "registry: nesting by value and behind non-nil pointers only; 'accepts every type without an untagged secret-looking field' is demanded too (own mismatch kind)",
          "types are built with reflect.StructOf: exported fields only, no methods; containers hold two populated elements and a zero one"]


def run(prop, tier, seed, replay=None):
    t0 = time.time()
    vlib.build_harness()
    d = vlib.scratch("c17")
    cases = os.path.join(d, "cases.ndjson")
    stats = []
    quick = tier == "quick"
    if replay:
        # the case is replayed on top of the quick set: leak kinds are named relative to what works elsewhere in the run
        ex = json.load(open(replay)).get("example", {})
        if not ex.get("hist"):
            raise vlib.Infra("replay file has no case")
        quick = True
    if True:
        depth = 3 if quick else 4
        stats.append(vlib.tlc_cases("Secure.tla", "SecureShapes.cfg", cases, {"Depth": depth, "Wide": "TRUE"}, tag="c17shape", workers=1, timeout=1500))
        # one level deeper with one-field structs (two containers between two structs need it)
        stats.append(vlib.tlc_cases("Secure.tla", "SecureShapes.cfg", cases, {"Depth": depth + 1, "Wide": "FALSE"}, tag="c17deep", workers=1, timeout=1500))
        stats.append(vlib.tlc_cases("Secure.tla", "SecureReg.cfg", cases, {"RegDepth": 2, "RegWide": "TRUE"}, tag="c17reg", workers=1, timeout=1500))
        if not quick:
            stats.append(vlib.tlc_cases("Secure.tla", "SecureReg.cfg", cases, {"RegDepth": 3, "RegWide": "FALSE"}, tag="c17reg3", workers=1, timeout=1500))
    if replay:
        open(cases, "a").write(ex["hist"] + "\n")
    res = vlib.run_go_seq("TestSecure", cases, tag="c17go", timeout=3000, env_extra={"VH_SEED": str(seed)})
    samples = []
    with open(cases) as f:
        for i, line in enumerate(f):
            if i in (7, 700, 1500):
                samples.append(json.loads(line))
    extra = {"replay_extra": res.get("extra", {})}
    rc = seqlib.finish(prop, tier, seed, t0, [res], stats,
                       "every request/response type shape of the grammar str | struct(1-2 fields, none|secure) | ptr | slice | map | iface | array to depth %d, and to depth %d with one-field structs (root: struct or *struct), each placed as sequence-action request, plan- and block-level check-action request and attempt response; 7 clone surfaces x {default, keep-state, keep-secrets} + every file of reports.Render searched for per-leaf canaries; registry: every struct shape over name class x tag x {string, struct, *struct} to %s, as Request()/Response(), by value/pointer; distinct = distinct TLC cases replayed"
                       % (3 if quick else 4, 4 if quick else 5, "2 levels" if quick else "2 levels (1-2 fields) and 3 levels (nested structs with 1 field)"),
                       samples, ASSUME, extra=extra, exhaustive=True)
    shutil.rmtree(d, ignore_errors=True)
    return rc
