"""Shared driver of the vault checks C13, C14, C15: spec/Vault.tla generates operation histories
with the expected reply and abstract store after every step (several TLC runs, in parallel), the
Go harness (TestVault) replays every history on a fresh sqlite in-memory vault and on a fresh
cosmosdb vault over the package's fake client (several replay processes in parallel)."""
import os, json, time, shutil, threading, random
import vlib, seqlib
from vlib import log


def generate(prop, d, gens, seed):
    """gens: list of dicts(cfg=, consts=, simulate=, depth=, timeout=). Runs them concurrently,
    returns (list of distinct case lines, tlc stats)."""
    outs = [os.path.join(d, "gen%d.ndjson" % i) for i in range(len(gens))]
    stats = [None] * len(gens)
    errs = []

    def one(i, g):
        try:
            stats[i] = vlib.tlc_cases("Vault.tla", g["cfg"], outs[i], g.get("consts"), tag="%s_g%d" % (prop.lower(), i), workers=1,
                                      timeout=g.get("timeout", 900), simulate=g.get("simulate"), depth=g.get("depth"),
                                      seed=seed if g.get("simulate") else None)
            stats[i]["cfg"] = g["cfg"]
        except Exception as ex:  # noqa
            errs.append(ex)

    ths = [threading.Thread(target=one, args=(i, g)) for i, g in enumerate(gens)]
    for t in ths:
        t.start()
    for t in ths:
        t.join()
    if errs:
        raise errs[0]
    seen = set()
    lines = []
    rnd = random.Random(seed)
    for o, g in zip(outs, gens):
        if not os.path.exists(o):
            continue
        mine = []
        with open(o) as f:
            for line in f:
                line = line.strip()
                if line and line not in seen:
                    seen.add(line)
                    mine.append(line)
        if g.get("simulate"):
            # the simulator prints every successor of the last state of a walk: keep (seeded) at most
            # per_prefix histories per walk, they differ in the last operation only
            groups = {}
            for line in mine:
                steps = json.loads(line)
                groups.setdefault(json.dumps(steps[:-1]), []).append(line)
            mine = []
            for k in groups:
                grp = groups[k]
                rnd.shuffle(grp)
                mine.extend(grp[:g.get("per_prefix", 2)])
        lines.extend(mine)
    for s in stats:
        log("[%s] TLC %s: %d cases, %s states, %.1fs" % (prop, s["cfg"], s["cases"], s.get("distinct", "?"), s["wall"]))
    return lines, stats


def replay(prop, d, lines, seed, nproc, test="TestVault", env=None):
    """Split the cases round-robin over nproc replay processes; returns the list of result dicts."""
    nproc = max(1, min(nproc, len(lines)))
    paths = []
    for i in range(nproc):
        p = os.path.join(d, "part%d.ndjson" % i)
        with open(p, "w") as f:
            for line in lines[i::nproc]:
                f.write(line + "\n")
        paths.append(p)
    results = [None] * nproc
    errs = []

    def one(i):
        try:
            e = {"VH_PROP": prop, "VH_SEED": str(seed)}
            e.update(env or {})
            results[i] = vlib.run_go_seq(test, paths[i], tag="%s_r%d" % (prop.lower(), i), timeout=3000, env_extra=e)
        except Exception as ex:  # noqa
            errs.append(ex)

    ths = [threading.Thread(target=one, args=(i,)) for i in range(nproc)]
    for t in ths:
        t.start()
    for t in ths:
        t.join()
    if errs:
        raise errs[0]
    return results


def merge_extra(results):
    tot = {}
    for r in results:
        for k, v in (r.get("extra") or {}).items():
            if isinstance(v, (int, float)):
                tot[k] = tot.get(k, 0) + v
            else:
                tot.setdefault(k, v)
    return tot


def sample(lines, idxs):
    out = []
    for i in idxs:
        if i < len(lines):
            steps = json.loads(lines[i])
            out.append([(s["op"] + ":" + s.get("id", "") + (":" + s["obj"] if "obj" in s else "") + "=>" + s.get("r", ""))[:60] for s in steps][:12])
    return out


def run(prop, tier, seed, gens, rule, assumptions, replayfile=None, nproc=None, extra_results=None, extra=None):
    t0 = time.time()
    vlib.build_harness()
    d = vlib.scratch(prop.lower())
    try:
        if replayfile:
            rf = json.load(open(replayfile))
            ex = rf.get("example", {})
            seed = int(rf.get("seed", seed))   # the concrete values are a function of (seed, history)
            lines, stats = [ex.get("hist", "")], []
            if not lines[0] or lines[0].endswith("..."):
                raise vlib.Infra("no complete history in %s; re-run the check with VERIF_SEED=%s" % (replayfile, seed))
        else:
            lines, stats = generate(prop, d, gens, seed)
        if not lines:
            raise vlib.Infra("TLC generated no cases")
        t1 = time.time()
        results = replay(prop, d, lines, seed, nproc or min(8, max(2, vlib.NCPU // 2)))
        log("[%s] replayed %d histories in %.1fs" % (prop, len(lines), time.time() - t1))
        ex = merge_extra(results)
        ex = {"replay_" + k: v for k, v in ex.items()}
        ex.update(extra or {})
        if extra_results:
            more = list(extra_results(d, seed))
            ex.update(merge_extra(more))
            results = results + more
        n = len(lines)
        return seqlib.finish(prop, tier, seed, t0, results, stats, rule, sample(lines, (0, n // 3, n // 2, n - 1)), assumptions, extra=ex, exhaustive=False)
    finally:
        shutil.rmtree(d, ignore_errors=True)
